(* C07_SPSC_Proofs.v — inductive invariant of the SPSC ring queue model (every schedule, every
   script of the one producer thread and the one consumer thread, every capacity 2^k, every start
   index: the arithmetic is mod 2^64 throughout, so index wrap-around is covered). *)
From Coq Require Import ZArith Znumtheory Lia List Bool Arith.
From PV Require Import Base.U64 E3.E3_Run C07.C07_Model C07.C07_Arith C07.C07_Lists C07.C07_SPSC_Model.
Import ListNotations.
Local Open Scope Z_scope.

Definition prod_op (o : op) : Prop := match o with OPush _ | OSend _ | OPushB _ => True | _ => False end.
Definition cons_op (o : op) : Prop := match o with OPop | ORecv => True | OPopB n => 0 <= n (* size_t *) | _ => False end.

Lemma gval_write_other g i ws j : j < i \/ i + Z.of_nat (length ws) <= j -> gval_write g i ws j = g j.
Proof.
  revert g i; induction ws as [|w r IH]; intros g i H; simpl; [reflexivity|].
  rewrite IH by (simpl length in H; lia). apply updZ_other. simpl length in H. lia.
Qed.
Lemma gval_write_at g i ws k : 0 <= k < Z.of_nat (length ws) -> gval_write g i ws (i + k) = nth (Z.to_nat k) ws 0.
Proof.
  revert g i k; induction ws as [|w r IH]; intros g i k H; simpl in *; [lia|].
  destruct (Z.eq_dec k 0) as [->|N].
  - rewrite Z.add_0_r. rewrite gval_write_other by lia. simpl. apply updZ_same.
  - replace (i + k) with (i + 1 + (k - 1)) by lia. rewrite IH by lia.
    replace (Z.to_nat k) with (S (Z.to_nat (k - 1))) by lia. reflexivity.
Qed.

Section SPSC.
  Variable c : cfg.
  Hypothesis Hc : cfg_ok c.
  Variable s : Z.                 (* start index *)
  Variables pp cc : nat.          (* the producer thread and the consumer thread *)
  Hypothesis Hne : pp <> cc.

  Let cap := c_cap c.

  Definition chron (st : sstate) (p : nat) : list res := rev (t_res (s_thr st p)).

  (* what a parked producer / consumer knows *)
  Definition prod_pc_ok (st : sstate) (pc : spc) : Prop :=
    let gh := s_gh st in let gt := s_gt st in
    match pc with
    | SPushLdT _ | SPbLdT _ => True
    | SPushLdH _ t | SPbLdH _ t => t = wrap gt
    | SPushWr _ t => t = wrap gt /\ gt - gh < cap
    | SPushStT v t => t = wrap gt /\ gt - gh < cap /\ s_slot st (gt mod cap) = v
    | SPbWr vs t n => t = wrap gt /\ 0 < n <= Z.of_nat (length vs) /\ gt + n - gh <= cap
    | SPbStT t n ws => t = wrap gt /\ 0 < n /\ gt + n - gh <= cap /\ Z.of_nat (length ws) = n /\
                       (forall k, 0 <= k < n -> s_slot st ((gt + k) mod cap) = nth (Z.to_nat k) ws 0)
    | _ => False
    end.
  Definition cons_pc_ok (st : sstate) (pc : spc) : Prop :=
    let gh := s_gh st in let gt := s_gt st in
    match pc with
    | SPopLdH => True
    | SObLdH n => 0 <= n
    | SPopLdT h => h = wrap gh
    | SObLdT n h => 0 <= n /\ h = wrap gh
    | SPopRd h => h = wrap gh /\ gh < gt
    | SPopStH h v => h = wrap gh /\ gh < gt /\ v = s_gval st gh
    | SObRd h n => h = wrap gh /\ 0 < n /\ gh + n <= gt
    | SObStH h n vs => h = wrap gh /\ 0 < n /\ gh + n <= gt /\ vs = map (s_gval st) (zseq gh (Z.to_nat n))
    | _ => False
    end.

  Record SInv (st : sstate) : Prop := mkSInv {
    sv_head : s_head st = wrap (s_gh st);
    sv_tail : s_tail st = wrap (s_gt st);
    sv_lo : s <= s_gh st;
    sv_rng : 0 <= s_gt st - s_gh st <= cap;
    sv_other : forall p, p <> pp -> p <> cc -> t_pc (s_thr st p) = None;
    sv_pops : Forall prod_op (t_ops (s_thr st pp));
    sv_cops : Forall cons_op (t_ops (s_thr st cc));
    sv_ppc : forall pc, t_pc (s_thr st pp) = Some pc -> prod_pc_ok st pc;
    sv_cpc : forall pc, t_pc (s_thr st cc) = Some pc -> cons_pc_ok st pc;
    sv_slot : forall i, s_gh st <= i < s_gt st -> s_slot st (i mod cap) = s_gval st i;
    sv_pushed : push_items (chron st pp) = map (fun i => (i, s_gval st i)) (zrange s (s_gt st));
    sv_popped : pop_items (chron st cc) = map (fun i => (i, s_gval st i)) (zrange s (s_gh st));
  }.

  (* ---- thread bookkeeping ---- *)
  Lemma entry_prod o : prod_op o -> forall st, prod_pc_ok st (spsc_entry o).
  Proof. destruct o; simpl; intros H st; try contradiction; first [exact I | exact H]. Qed.
  Lemma entry_cons o : cons_op o -> forall st, cons_pc_ok st (spsc_entry o).
  Proof. destruct o; simpl; intros H st; try contradiction; first [exact I | exact H]. Qed.

  Lemma finish_pc (th : thr spc) r pc :
    t_pc (thr_finish spsc_entry th r) = Some pc -> exists o rest, t_ops th = o :: rest /\ pc = spsc_entry o.
  Proof. unfold thr_finish. destruct (t_ops th) as [|o rest]; simpl; intros E; [discriminate|]. inversion E. eauto. Qed.
  Lemma finish_ops (th : thr spc) r (P : op -> Prop) :
    Forall P (t_ops th) -> Forall P (t_ops (thr_finish spsc_entry th r)).
  Proof. unfold thr_finish. destruct (t_ops th) as [|o rest]; simpl; intros F; [constructor|]. inversion F; assumption. Qed.
  Lemma finish_res (th : thr spc) r : rev (t_res (thr_finish spsc_entry th r)) = rev (t_res th) ++ [r].
  Proof. unfold thr_finish. destruct (t_ops th); reflexivity. Qed.

  Lemma map_gval_ext (g g' : Z -> Z) l : (forall i, In i l -> g' i = g i) ->
    map (fun i => (i, g' i)) l = map (fun i => (i, g i)) l.
  Proof. intros H. apply map_ext_in. intros i Hi. rewrite H by exact Hi. reflexivity. Qed.

  Ltac thr_simpl :=
    unfold s_finish, s_goto, s_set_thr, chron in *; cbn [fst s_head s_tail s_slot s_gh s_gt s_gval s_thr] in *;
    repeat first [rewrite upd_same in * | rewrite (upd_other _ _ _ _ Hne) in * |
                  rewrite (upd_other _ _ _ _ (not_eq_sym Hne)) in *];
    cbn [thr_goto t_pc t_ops t_res] in *.

  (* ---- a step of the producer ---- *)
  Lemma step_prod st : SInv st -> SInv (fst (spsc_step c st pp)).
  Proof.
    intros I. unfold spsc_step. destruct (t_pc (s_thr st pp)) as [pc|] eqn:Epc; [|exact I].
    destruct I as [Ihd Itl Ilo Irng Ioth Ipops Icops Ippc Icpc Islot Ipush Ipop].
    pose proof (cfg_cap_pos c Hc) as Hcap. pose proof (cfg_cap_lt_W c Hc) as HcapW. fold cap in Hcap, HcapW.
    specialize (Ippc pc Epc).
    destruct pc; cbn [prod_pc_ok] in Ippc; try contradiction.
    - (* SPushLdT *) constructor; thr_simpl; try assumption.
      + intros p H1 H2. rewrite upd_other by exact H1. auto.
      + intros pc E. inversion E; subst. simpl. exact Itl.
    - (* SPushLdH *) subst t.
      destruct (check_full c (s_head st) (wrap (s_gt st))) eqn:Ef.
      + constructor; thr_simpl; try assumption.
        * intros p H1 H2. rewrite upd_other by exact H1. auto.
        * apply finish_ops; assumption.
        * intros pc E. apply finish_pc in E. destruct E as (o & rest & Eo & ->).
          apply entry_prod. rewrite Eo in Ipops. inversion Ipops; assumption.
        * rewrite finish_res. unfold push_items in *. rewrite flat_map_snoc. simpl. rewrite app_nil_r. exact Ipush.
      + constructor; thr_simpl; try assumption.
        * intros p H1 H2. rewrite upd_other by exact H1. auto.
        * intros pc E. inversion E; subst. simpl. split; [reflexivity|].
          rewrite Ihd in Ef. apply not_true_iff_false in Ef.
          rewrite (check_full_wrap c _ _ Hc Irng) in Ef. fold cap. lia.
    - (* SPushWr *) destruct Ippc as [-> Hlt].
      constructor; thr_simpl; try assumption.
      + intros p H1 H2. rewrite upd_other by exact H1. auto.
      + intros pc E. inversion E; subst. simpl. split; [reflexivity|]. split; [exact Hlt|].
        rewrite idx_wrap by exact Hc. apply updZ_same.
      + intros i Hi. rewrite idx_wrap by exact Hc. rewrite updZ_other; [auto|].
        unfold cap. apply (slot_ne_of_close (c_cap c)); fold cap; lia.
    - (* SPushStT *) destruct Ippc as (-> & Hlt & Hsl).
      constructor; thr_simpl; try assumption.
      + rewrite wrap_add_wrap. reflexivity.
      + lia.
      + intros p H1 H2. rewrite upd_other by exact H1. auto.
      + apply finish_ops; assumption.
      + intros pc E. apply finish_pc in E. destruct E as (o & rest & Eo & ->).
        apply entry_prod. rewrite Eo in Ipops. inversion Ipops; assumption.
      + intros pc E. specialize (Icpc pc E). destruct pc; simpl in *; try assumption; try lia.
        * destruct Icpc as (? & ? & ->). repeat split; try lia. rewrite updZ_other by lia. reflexivity.
        * destruct Icpc as (? & ? & ? & ->). repeat split; try lia.
          apply map_ext_in. intros i Hi. apply zseq_In in Hi. rewrite updZ_other by lia. reflexivity.
      + intros i Hi. destruct (Z.eq_dec i (s_gt st)) as [->|N].
        * rewrite updZ_same. exact Hsl.
        * rewrite updZ_other by exact N. apply Islot. lia.
      + rewrite finish_res. unfold push_items in *. rewrite flat_map_snoc, Ipush. simpl.
        rewrite zrange_snoc by lia. rewrite map_app. simpl. rewrite updZ_same. f_equal.
        symmetry. apply map_gval_ext. intros i Hi. apply zrange_In in Hi. apply updZ_other. lia.
      + rewrite Ipop. symmetry. apply map_gval_ext. intros i Hi. apply zrange_In in Hi. apply updZ_other. lia.
    - (* SPbLdT *) constructor; thr_simpl; try assumption.
      + intros p H1 H2. rewrite upd_other by exact H1. auto.
      + intros pc E. inversion E; subst. simpl. exact Itl.
    - (* SPbLdH *) subst t. rewrite Ihd.
      rewrite wrap_diff by lia.
      assert (Hsp : wrap (c_cap c - (s_gt st - s_gh st)) = cap - (s_gt st - s_gh st)) by (apply wrap_small; fold cap; lia).
      rewrite Hsp.
      destruct (zmin (Z.of_nat (length vs)) (cap - (s_gt st - s_gh st)) =? 0) eqn:En.
      + constructor; thr_simpl; try assumption.
        * intros p H1 H2. rewrite upd_other by exact H1. auto.
        * apply finish_ops; assumption.
        * intros pc E. apply finish_pc in E. destruct E as (o & rest & Eo & ->).
          apply entry_prod. rewrite Eo in Ipops. inversion Ipops; assumption.
        * rewrite finish_res. unfold push_items in *. rewrite flat_map_snoc. simpl. rewrite app_nil_r. exact Ipush.
      + apply Z.eqb_neq in En.
        constructor; thr_simpl; try assumption.
        * intros p H1 H2. rewrite upd_other by exact H1. auto.
        * intros pc E. inversion E; subst. simpl. split; [reflexivity|].
          unfold zmin in *. destruct (Z.ltb_spec (Z.of_nat (length vs)) (cap - (s_gt st - s_gh st))); fold cap; lia.
    - (* SPbWr *) destruct Ippc as (-> & Hn & Hroom).
      assert (Hlen : Z.of_nat (length (firstn (Z.to_nat n) vs)) = n) by (rewrite firstn_length; lia).
      constructor; thr_simpl; try assumption.
      + intros p H1 H2. rewrite upd_other by exact H1. auto.
      + intros pc E. inversion E; subst. simpl. repeat split; try lia.
        intros k Hk. fold cap. unfold cap. apply ring_write_at; [exact Hc| fold cap; lia | lia].
      + intros i Hi. rewrite ring_write_other; [auto | exact Hc |].
        intros k Hk. unfold cap. apply (slot_ne_of_close (c_cap c)); fold cap; lia.
    - (* SPbStT *) destruct Ippc as (-> & Hn & Hroom & Hlen & Hsl).
      constructor; thr_simpl; try assumption.
      + rewrite wrap_add_wrap. reflexivity.
      + lia.
      + intros p H1 H2. rewrite upd_other by exact H1. auto.
      + apply finish_ops; assumption.
      + intros pc E. apply finish_pc in E. destruct E as (o & rest & Eo & ->).
        apply entry_prod. rewrite Eo in Ipops. inversion Ipops; assumption.
      + intros pc E. specialize (Icpc pc E). destruct pc; simpl in *; try assumption; try lia.
        * destruct Icpc as (? & ? & ->). repeat split; try lia. rewrite gval_write_other by lia. reflexivity.
        * destruct Icpc as (? & ? & ? & ->). repeat split; try lia.
          apply map_ext_in. intros i Hi. apply zseq_In in Hi. rewrite gval_write_other by lia. reflexivity.
      + intros i Hi. destruct (Z_lt_dec i (s_gt st)) as [L|G].
        * rewrite gval_write_other by lia. apply Islot. lia.
        * replace i with (s_gt st + (i - s_gt st)) by lia.
          rewrite gval_write_at by lia. apply Hsl. lia.
      + rewrite finish_res. unfold push_items in *. rewrite flat_map_snoc, Ipush. simpl.
        rewrite (zrange_app s (s_gt st) (s_gt st + n)) by lia. rewrite map_app. f_equal.
        * symmetry. apply map_gval_ext. intros i Hi. apply zrange_In in Hi. apply gval_write_other. lia.
        * rewrite <- Hlen. apply indexed_map. intros k Hk. apply gval_write_at. lia.
      + rewrite Ipop. symmetry. apply map_gval_ext. intros i Hi. apply zrange_In in Hi. apply gval_write_other. lia.
  Qed.

  (* ---- a step of the consumer ---- *)
  Lemma step_cons st : SInv st -> SInv (fst (spsc_step c st cc)).
  Proof.
    intros I. unfold spsc_step. destruct (t_pc (s_thr st cc)) as [pc|] eqn:Epc; [|exact I].
    destruct I as [Ihd Itl Ilo Irng Ioth Ipops Icops Ippc Icpc Islot Ipush Ipop].
    pose proof (cfg_cap_pos c Hc) as Hcap. pose proof (cfg_cap_lt_W c Hc) as HcapW. fold cap in Hcap, HcapW.
    specialize (Icpc pc Epc).
    destruct pc; cbn [cons_pc_ok] in Icpc; try contradiction.
    - (* SPopLdH *) constructor; thr_simpl; try assumption.
      + intros p H1 H2. rewrite upd_other by exact H2. auto.
      + intros pc E. inversion E; subst. simpl. exact Ihd.
    - (* SPopLdT *) subst h. rewrite Itl.
      destruct (check_empty (wrap (s_gh st)) (wrap (s_gt st))) eqn:Ee.
      + constructor; thr_simpl; try assumption.
        * intros p H1 H2. rewrite upd_other by exact H2. auto.
        * apply finish_ops; assumption.
        * intros pc E. apply finish_pc in E. destruct E as (o & rest & Eo & ->).
          apply entry_cons. rewrite Eo in Icops. inversion Icops; assumption.
        * rewrite finish_res. unfold pop_items in *. rewrite flat_map_snoc. simpl. rewrite app_nil_r. exact Ipop.
      + constructor; thr_simpl; try assumption.
        * intros p H1 H2. rewrite upd_other by exact H2. auto.
        * intros pc E. inversion E; subst. simpl. split; [reflexivity|].
          apply not_true_iff_false in Ee. rewrite (check_empty_wrap c _ _ Hc Irng) in Ee. lia.
    - (* SPopRd *) destruct Icpc as [-> Hlt].
      constructor; thr_simpl; try assumption.
      + intros p H1 H2. rewrite upd_other by exact H2. auto.
      + intros pc E. inversion E; subst. simpl. repeat split; try assumption.
        rewrite idx_wrap by exact Hc. apply Islot. lia.
    - (* SPopStH *) destruct Icpc as (-> & Hlt & ->).
      constructor; thr_simpl; try assumption.
      + rewrite wrap_add_wrap. reflexivity.
      + lia.
      + lia.
      + intros p H1 H2. rewrite upd_other by exact H2. auto.
      + apply finish_ops; assumption.
      + intros pc E. specialize (Ippc pc E). destruct pc; simpl in *; try assumption; try lia;
          repeat match goal with H : _ /\ _ |- _ => destruct H end; repeat split; try assumption; try lia.
      + intros pc E. apply finish_pc in E. destruct E as (o & rest & Eo & ->).
        apply entry_cons. rewrite Eo in Icops. inversion Icops; assumption.
      + intros i Hi. apply Islot. lia.
      + rewrite finish_res. unfold pop_items in *. rewrite flat_map_snoc, Ipop. simpl.
        rewrite zrange_snoc by lia. rewrite map_app. reflexivity.
    - (* SObLdH *) constructor; thr_simpl; try assumption.
      + intros p H1 H2. rewrite upd_other by exact H2. auto.
      + intros pc E. inversion E; subst. simpl. split; [exact Icpc | exact Ihd].
    - (* SObLdT *) destruct Icpc as [Hn0 ->]. rewrite Itl. rewrite wrap_diff by lia.
      destruct (zmin n (s_gt st - s_gh st) =? 0) eqn:En.
      + constructor; thr_simpl; try assumption.
        * intros p H1 H2. rewrite upd_other by exact H2. auto.
        * apply finish_ops; assumption.
        * intros pc E. apply finish_pc in E. destruct E as (o & rest & Eo & ->).
          apply entry_cons. rewrite Eo in Icops. inversion Icops; assumption.
        * rewrite finish_res. unfold pop_items in *. rewrite flat_map_snoc. simpl. rewrite app_nil_r. exact Ipop.
      + apply Z.eqb_neq in En.
        constructor; thr_simpl; try assumption.
        * intros p H1 H2. rewrite upd_other by exact H2. auto.
        * intros pc E. inversion E; subst. simpl. split; [reflexivity|].
          unfold zmin in *. destruct (Z.ltb_spec n (s_gt st - s_gh st)); lia.
    - (* SObRd *) destruct Icpc as (-> & Hn & Hle).
      constructor; thr_simpl; try assumption.
      + intros p H1 H2. rewrite upd_other by exact H2. auto.
      + intros pc E. inversion E; subst. simpl. repeat split; try assumption.
        rewrite (ring_read_spec c Hc). apply map_ext_in. intros i Hi. apply zseq_In in Hi.
        apply Islot. lia.
    - (* SObStH *) destruct Icpc as (-> & Hn & Hle & ->).
      constructor; thr_simpl; try assumption.
      + rewrite wrap_add_wrap. reflexivity.
      + lia.
      + lia.
      + intros p H1 H2. rewrite upd_other by exact H2. auto.
      + apply finish_ops; assumption.
      + intros pc E. specialize (Ippc pc E). destruct pc; simpl in *; try assumption; try lia;
          repeat match goal with H : _ /\ _ |- _ => destruct H end; repeat split; try assumption; try lia.
      + intros pc E. apply finish_pc in E. destruct E as (o & rest & Eo & ->).
        apply entry_cons. rewrite Eo in Icops. inversion Icops; assumption.
      + intros i Hi. apply Islot. lia.
      + rewrite finish_res. unfold pop_items in *. rewrite flat_map_snoc, Ipop. simpl.
        rewrite (zrange_app s (s_gh st) (s_gh st + n)) by lia. rewrite map_app. f_equal.
        assert (El : Z.of_nat (length (map (s_gval st) (zseq (s_gh st) (Z.to_nat n)))) = n)
          by (rewrite map_length, zseq_length; lia).
        rewrite <- El at 2. apply indexed_map. intros k Hk.
        rewrite El in Hk. rewrite (nth_indep _ 0 (s_gval st 0)) by (rewrite map_length, zseq_length; lia).
        rewrite map_nth. f_equal.
        clear - Hk. revert k Hk. generalize (s_gh st) as a. generalize n as m. intros m a k Hk.
        assert (G : forall (q : nat) a, (Z.to_nat k < q)%nat -> 0 <= k -> nth (Z.to_nat k) (zseq a q) 0 = a + k).
        { clear. intros q. revert k. induction q; intros k a Hq Hk; [lia|]. simpl.
          destruct (Z.to_nat k) as [|k'] eqn:Ek.
          - assert (k = 0) by lia. subst. lia.
          - specialize (IHq (k - 1) (a + 1)). replace (Z.to_nat (k - 1)) with k' in IHq by lia.
            rewrite IHq by lia. lia. }
        symmetry. apply G; lia.
  Qed.

  Lemma step_any st p : SInv st -> SInv (fst (spsc_step c st p)).
  Proof.
    intros I. destruct (Nat.eq_dec p pp) as [->|N1]; [apply step_prod; exact I|].
    destruct (Nat.eq_dec p cc) as [->|N2]; [apply step_cons; exact I|].
    unfold spsc_step. rewrite (sv_other st I p N1 N2). exact I.
  Qed.

  (* programs inside the SPSC contract: thread pp only produces, thread cc only consumes, nobody else *)
  Definition spsc_wf (scripts : list (list op)) : Prop :=
    Forall prod_op (nth pp scripts []) /\ Forall cons_op (nth cc scripts []) /\
    forall p, p <> pp -> p <> cc -> nth p scripts [] = [].

  Lemma init_inv scripts : spsc_wf scripts -> SInv (spsc_init s scripts).
  Proof.
    intros (Hp & Hcn & Ho). pose proof (cfg_cap_pos c Hc).
    constructor; unfold chron; cbn [spsc_init s_head s_tail s_slot s_gh s_gt s_gval s_thr]; try reflexivity; try (fold cap; lia).
    - intros p H1 H2. rewrite (Ho p H1 H2). reflexivity.
    - unfold thr_init. destruct (nth pp scripts []); [constructor|]. inversion Hp; assumption.
    - unfold thr_init. destruct (nth cc scripts []); [constructor|]. inversion Hcn; assumption.
    - unfold thr_init. intros pc E. destruct (nth pp scripts []) as [|o r]; simpl in E; [discriminate|].
      inversion E; subst. apply entry_prod. inversion Hp; assumption.
    - unfold thr_init. intros pc E. destruct (nth cc scripts []) as [|o r]; simpl in E; [discriminate|].
      inversion E; subst. apply entry_cons. inversion Hcn; assumption.
    - rewrite zrange_nil. unfold thr_init. destruct (nth pp scripts []); reflexivity.
    - rewrite zrange_nil. unfold thr_init. destruct (nth cc scripts []); reflexivity.
  Qed.

  (* every state reachable by ANY sequence of participant choices *)
  Inductive sreach (st0 : sstate) : sstate -> Prop :=
  | sreach0 : sreach st0 st0
  | sreachS st p : sreach st0 st -> sreach st0 (fst (spsc_step c st p)).

  Lemma sreach_inv scripts st : spsc_wf scripts -> sreach (spsc_init s scripts) st -> SInv st.
  Proof. intros W R. induction R; [apply init_inv; exact W | apply step_any; exact IHR]. Qed.

  (* an E3 replay step is one or two steps of the proved system *)
  Lemma e3step_reach st0 st p f : sreach st0 st -> sreach st0 (fst (spsc_e3step c st p f)).
  Proof.
    intros R. unfold spsc_e3step.
    destruct (spsc_step c st p) as [st1 o] eqn:E1.
    assert (R1 : sreach st0 st1) by (replace st1 with (fst (spsc_step c st p)) by (rewrite E1; reflexivity); constructor; exact R).
    destruct (t_pc (s_thr st1 p)) as [pc|]; [|exact R1].
    destruct (spsc_silent pc); [|exact R1]. cbn [fst]. constructor. exact R1.
  Qed.

  (* ---- the properties ---- *)
  Section Props.
    Variable scripts : list (list op).
    Hypothesis Hwf : spsc_wf scripts.
    Variable st : sstate.
    Hypothesis Hreach : sreach (spsc_init s scripts) st.

    Let pushed := push_items (chron st pp).     (* (index, value) in the producer's program order *)
    Let popped := pop_items (chron st cc).      (* (index, value) in the consumer's program order *)
    Let queued := map (fun i => (i, s_gval st i)) (zrange (s_gh st) (s_gt st)).

    (* exactly once + FIFO: as SEQUENCES, what was popped followed by what is still queued is what was pushed *)
    Lemma spsc_exactly_once_fifo : popped ++ queued = pushed.
    Proof.
      pose proof (sreach_inv scripts st Hwf Hreach) as I. destruct I.
      unfold popped, pushed, queued. rewrite sv_popped0, sv_pushed0, <- map_app, <- zrange_app by lia. reflexivity.
    Qed.

    Lemma spsc_no_invention iv : In iv popped -> In iv pushed.
    Proof. intros H. rewrite <- spsc_exactly_once_fifo. apply in_or_app. left; exact H. Qed.

    (* bounded: never more than capacity elements; the atomics are the ghost indices mod 2^64; every queued
       element sits intact in its slot (no slot is overwritten before it has been read), at every moment
       of every interleaving, including right after each non-atomic slot write *)
    Lemma spsc_bounded :
      0 <= s_gt st - s_gh st <= c_cap c /\
      s_head st = wrap (s_gh st) /\ s_tail st = wrap (s_gt st) /\
      wrap (s_tail st - s_head st) = s_gt st - s_gh st /\
      forall i, s_gh st <= i < s_gt st -> s_slot st (idx c (wrap i)) = s_gval st i.
    Proof.
      pose proof (sreach_inv scripts st Hwf Hreach) as I. destruct I.
      pose proof (cfg_cap_lt_W c Hc) as HW. unfold cap in *.
      repeat split; try assumption; try lia.
      - rewrite sv_head0, sv_tail0. apply wrap_diff. lia.
      - intros i Hi. rewrite idx_wrap by exact Hc. apply sv_slot0. exact Hi.
    Qed.
  End Props.
End SPSC.

(* ---- non-vacuity: a concrete configuration meets the hypotheses, and a non-trivial state is reachable ---- *)
Example cfg_ok_ex : cfg_ok (cfg_of 3) /\ c_cap (cfg_of 3) = 4 /\ cfg_ok (cfg_of 1) /\ c_cap (cfg_of 1) = 2.
Proof. unfold cfg_ok. vm_compute. intuition discriminate. Qed.
Example spsc_wf_ex : spsc_wf 0 1 [[OPush 7; OPushB [8; 9]]; [OPop; OPopB 2]].
Proof.
  split; [|split].
  - simpl. repeat constructor.
  - simpl. constructor; [exact I|]. constructor; [simpl; lia|constructor].
  - intros p H0 H1. destruct p as [|[|p]]; try contradiction; destruct p; reflexivity.
Qed.
Example spsc_reach_ex :
  let c := cfg_of 2 in
  let st := fst (spsc_step c (fst (spsc_step c (fst (spsc_step c (fst (spsc_step c
              (spsc_init 18446744073709551615 [[OPush 7; OPushB [8; 9]]; [OPop; OPopB 2]]) 0%nat)) 0%nat)) 0%nat)) 0%nat) in
  sreach c (spsc_init 18446744073709551615 [[OPush 7; OPushB [8; 9]]; [OPop; OPopB 2]]) st /\
  s_tail st = 0 /\ s_gt st = 18446744073709551616.        (* the tail index has wrapped *)
Proof. cbv zeta. split; [repeat constructor | vm_compute; split; reflexivity]. Qed.
