(* C07_Lists.v — list helpers for the ghost histories of the C07 proofs: integer ranges, indexed
   items of results, ring_write / ring_read. *)
From Coq Require Import ZArith Znumtheory Lia List Bool Arith.
From PV Require Import Base.U64 C07.C07_Model C07.C07_Arith.
Import ListNotations.
Local Open Scope Z_scope.

(* [a; a+1; ...; a+n-1] *)
Fixpoint zseq (a : Z) (n : nat) : list Z := match n with O => [] | S n' => a :: zseq (a + 1) n' end.
Definition zrange (a b : Z) : list Z := zseq a (Z.to_nat (b - a)).

Lemma zseq_length a n : length (zseq a n) = n.
Proof. revert a; induction n; intros; simpl; auto. Qed.

Lemma zseq_app a n m : zseq a (n + m) = zseq a n ++ zseq (a + Z.of_nat n) m.
Proof.
  revert a; induction n; intros a; simpl.
  - f_equal. lia.
  - f_equal. rewrite IHn. f_equal. f_equal. lia.
Qed.

Lemma zseq_In a n x : In x (zseq a n) <-> a <= x < a + Z.of_nat n.
Proof.
  revert a; induction n; intros a; simpl.
  - lia.
  - rewrite IHn. lia.
Qed.

Lemma zrange_In a b x : In x (zrange a b) <-> a <= x < b.
Proof. unfold zrange. rewrite zseq_In. lia. Qed.

Lemma zrange_app a b d : a <= b -> b <= d -> zrange a d = zrange a b ++ zrange b d.
Proof.
  intros H1 H2. unfold zrange.
  replace (Z.to_nat (d - a)) with (Z.to_nat (b - a) + Z.to_nat (d - b))%nat by lia.
  rewrite zseq_app. f_equal. f_equal. lia.
Qed.

Lemma zrange_nil a : zrange a a = [].
Proof. unfold zrange. rewrite Z.sub_diag. reflexivity. Qed.

Lemma zrange_one a : zrange a (a + 1) = [a].
Proof. unfold zrange. replace (a + 1 - a) with 1 by lia. reflexivity. Qed.

Lemma zrange_snoc a b : a <= b -> zrange a (b + 1) = zrange a b ++ [b].
Proof. intros H. rewrite (zrange_app a b (b + 1)) by lia. rewrite zrange_one. reflexivity. Qed.

Lemma zrange_length a b : a <= b -> Z.of_nat (length (zrange a b)) = b - a.
Proof. intros. unfold zrange. rewrite zseq_length. lia. Qed.

(* (i, w0) :: (i+1, w1) :: ... *)
Fixpoint indexed (i : Z) (ws : list Z) : list (Z * Z) :=
  match ws with [] => [] | w :: r => (i, w) :: indexed (i + 1) r end.

Lemma indexed_map g i ws :
  (forall k, 0 <= k < Z.of_nat (length ws) -> g (i + k) = nth (Z.to_nat k) ws 0) ->
  indexed i ws = map (fun j => (j, g j)) (zrange i (i + Z.of_nat (length ws))).
Proof.
  revert i; induction ws as [|w r IH]; intros i H.
  - simpl. rewrite Z.add_0_r, zrange_nil. reflexivity.
  - unfold zrange. replace (i + Z.of_nat (length (w :: r)) - i) with (Z.of_nat (S (length r))) by (simpl length; lia).
    rewrite Nat2Z.id. simpl. f_equal.
    + f_equal. specialize (H 0). rewrite Z.add_0_r in H. simpl in H. rewrite H; [reflexivity|lia].
    + rewrite IH.
      * unfold zrange. replace (i + 1 + Z.of_nat (length r) - (i + 1)) with (Z.of_nat (length r)) by lia.
        rewrite Nat2Z.id. reflexivity.
      * intros k Hk. specialize (H (k + 1)). replace (i + (k + 1)) with (i + 1 + k) in H by lia.
        rewrite H by (simpl length; lia).
        replace (Z.to_nat (k + 1)) with (S (Z.to_nat k)) by lia. reflexivity.
Qed.

Lemma map_snd_indexed i ws : map snd (indexed i ws) = ws.
Proof. revert i; induction ws; intros; simpl; [reflexivity|]. f_equal. apply IHws. Qed.

(* items pushed / popped by a chronological list of results: (ghost index, value) *)
Definition push_item (r : res) : list (Z * Z) :=
  match r with RPushOk i v | RSent i v => [(i, v)] | RPushB i ws => indexed i ws | _ => [] end.
Definition pop_item (r : res) : list (Z * Z) :=
  match r with RPopOk i v | RRecv i v => [(i, v)] | RPopB i vs => indexed i vs | _ => [] end.
Definition push_items (l : list res) := flat_map push_item l.
Definition pop_items (l : list res) := flat_map pop_item l.

Lemma flat_map_snoc {A B} (f : A -> list B) l x : flat_map f (l ++ [x]) = flat_map f l ++ f x.
Proof. rewrite flat_map_app. simpl. rewrite app_nil_r. reflexivity. Qed.

(* updates of function-represented maps *)
Lemma upd_same {A} (f : nat -> A) i x : upd f i x i = x.
Proof. unfold upd. rewrite Nat.eqb_refl. reflexivity. Qed.
Lemma upd_other {A} (f : nat -> A) i x j : j <> i -> upd f i x j = f j.
Proof. intros H. unfold upd. destruct (Nat.eqb_spec j i); [contradiction|reflexivity]. Qed.
Lemma updZ_same {A} (f : Z -> A) i x : updZ f i x i = x.
Proof. unfold updZ. rewrite Z.eqb_refl. reflexivity. Qed.
Lemma updZ_other {A} (f : Z -> A) i x j : j <> i -> updZ f i x j = f j.
Proof. intros H. unfold updZ. destruct (Z.eqb_spec j i); [contradiction|reflexivity]. Qed.

Section Ring.
  Variable c : cfg.
  Hypothesis Hc : cfg_ok c.

  Lemma ring_write_other sl g ws j :
    (forall k, 0 <= k < Z.of_nat (length ws) -> j <> (g + k) mod c_cap c) ->
    ring_write c sl (wrap g) ws j = sl j.
  Proof.
    revert sl g; induction ws as [|w r IH]; intros sl g H; simpl; [reflexivity|].
    rewrite wrap_add_wrap. rewrite IH.
    - rewrite idx_wrap by exact Hc. apply updZ_other.
      specialize (H 0). rewrite Z.add_0_r in H. apply H. simpl length. lia.
    - intros k Hk. specialize (H (k + 1)). replace (g + (k + 1)) with (g + 1 + k) in H by lia.
      apply H. simpl length. lia.
  Qed.

  Lemma ring_write_at sl g ws k :
    Z.of_nat (length ws) <= c_cap c -> 0 <= k < Z.of_nat (length ws) ->
    ring_write c sl (wrap g) ws ((g + k) mod c_cap c) = nth (Z.to_nat k) ws 0.
  Proof.
    pose proof (cfg_cap_pos c Hc) as Hcap.
    revert sl g k; induction ws as [|w r IH]; intros sl g k Hl Hk; simpl in *; [lia|].
    rewrite wrap_add_wrap.
    destruct (Z.eq_dec k 0) as [->|Hk0].
    - rewrite Z.add_0_r. simpl. rewrite ring_write_other.
      + rewrite idx_wrap by exact Hc. apply updZ_same.
      + intros k' Hk'. apply (slot_ne_of_close (c_cap c)); lia.
    - replace (g + k) with (g + 1 + (k - 1)) by lia. rewrite IH by lia.
      replace (Z.to_nat k) with (S (Z.to_nat (k - 1))) by lia. reflexivity.
  Qed.

  Lemma ring_read_spec sl g n :
    ring_read c sl (wrap g) n = map (fun i => sl (i mod c_cap c)) (zseq g n).
  Proof.
    revert g; induction n; intros g; simpl; [reflexivity|].
    rewrite idx_wrap by exact Hc. f_equal. rewrite wrap_add_wrap. apply IHn.
  Qed.
End Ring.

