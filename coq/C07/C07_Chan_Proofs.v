(* C07_Chan_Proofs.v — reachability relations of the RingChannel protocol model (creach) and of the batch queue model
   (breach), the channel property statement (proved in C07_Chan_Inv.v / C07_Chan_InvS.v as chan_no_lost_wakeup_full);
   E3 replay steps are steps. *)
From Coq Require Import ZArith List Bool Arith.
From PV Require Import Base.U64 E3.E3_Run C07.C07_Model C07.C07_Chan_Model C07.C07_Batch_Model.
Import ListNotations.
Local Open Scope Z_scope.

(* any sequence of participant choices and of "the timed wait times out" choices (flavor) *)
Inductive creach (cap Y : Z) (st0 : cstate) : cstate -> Prop :=
| creach0 : creach cap Y st0 st0
| creachS st p f : creach cap Y st0 st -> creach cap Y st0 (fst (chan_step cap Y st p f)).

Lemma chan_e3step_reach cap Y st0 st p f : creach cap Y st0 st -> creach cap Y st0 (fst (chan_e3step cap Y st p f)).
Proof.
  intros R. unfold chan_e3step. destruct (chan_step cap Y st p f) as [st' o] eqn:E.
  assert (R' : creach cap Y st0 st') by (replace st' with (fst (chan_step cap Y st p f)) by (rewrite E; reflexivity); constructor; exact R).
  destruct (Nat.ltb _ _); exact R'.
Qed.

(* the statement; proved (for 0 <= cap and fewer than 2^64 - 1 participants) as C07_Chan_InvS.chan_no_lost_wakeup_full *)
Definition chan_no_lost_wakeup_statement : Prop :=
  forall cap Y scripts st, 2 <= cap -> 0 <= Y -> creach cap Y (chan_init scripts) st ->
  lost_wakeup_recv (length scripts) st = false /\ lost_wakeup_send cap (length scripts) st = false.

Inductive breach (c : cfg) (st0 : bstate) : bstate -> Prop :=
| breach0 : breach c st0 st0
| breachS st p : breach c st0 st -> breach c st0 (fst (batch_step c st p)).

(* an early formulation of the batch queue invariant, superseded by the theorems of C07_Batch_Proofs.v (BInv) *)
Definition batch_q_statement : Prop :=
  forall c s scripts st, 2 <= c_cap c -> breach c (batch_init s scripts) st ->
  let gh := b_grt st - wrap (b_rtail st - b_head st) in
  0 <= wrap (b_tail st - b_head st) <= c_cap c /\
  wrap (b_rtail st - b_head st) <= wrap (b_whead st - b_head st) <= wrap (b_tail st - b_head st) /\
  forall i, b_grt st <= i < b_grt st + wrap (b_whead st - b_rtail st) -> b_slot st (idx c (wrap i)) = b_gval st i.
