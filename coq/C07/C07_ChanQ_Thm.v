(* C07_ChanQ_Thm.v — RingChannel over the fine-grained MPMC queue: the refinement theorem for whole runs and the two
   no-lost-wake-up theorems for the PRODUCT model (C07_ChanQ_Model.v), obtained from the theorems about the protocol over
   an atomic FIFO (C07_Chan_Inv.v, C07_Chan_InvS.v) through the refinement (C07_ChanQ_Proofs.v). *)
From Coq Require Import ZArith Znumtheory Lia List Bool Arith.
From PV Require Import Base.U64 E3.E3_Run C07.C07_Model C07.C07_Arith C07.C07_Lists C07.C07_MPMC_Model C07.C07_MPMC_Proofs
  C07.C07_MPMC_Report C07.C07_MPMC_Linear C07.C07_Chan_Model C07.C07_Chan_Proofs C07.C07_Chan_Inv C07.C07_Chan_InvS
  C07.C07_ChanQ_Model C07.C07_ChanQ_Proofs.
Import ListNotations.
Local Open Scope Z_scope.

Lemma forallb_ext_in {A} (f g : A -> bool) l : (forall x, In x l -> f x = g x) -> forallb f l = forallb g l.
Proof. induction l as [|a l IH]; intros H; simpl; [reflexivity|]. rewrite (H a) by (left; reflexivity). rewrite IH; [reflexivity|]. intros x Hx. apply H. right; exact Hx. Qed.
Lemma existsb_ext_in {A} (f g : A -> bool) l : (forall x, In x l -> f x = g x) -> existsb f l = existsb g l.
Proof. induction l as [|a l IH]; intros H; simpl; [reflexivity|]. rewrite (H a) by (left; reflexivity). rewrite IH; [reflexivity|]. intros x Hx. apply H. right; exact Hx. Qed.

(* the lost-wake-up predicates look only at the queue, one semaphore and the program points of participants 0..n-1 *)
Lemma lw_recv_ext n a b : c_q a = c_q b -> c_qsem a = c_qsem b ->
  (forall p, In p (seq 0 n) -> t_pc (c_thr a p) = t_pc (c_thr b p)) -> lost_wakeup_recv n a = lost_wakeup_recv n b.
Proof.
  intros E1 E2 E3. unfold lost_wakeup_recv. rewrite E1, E2. f_equal; [f_equal|].
  - apply existsb_ext_in. intros p Hp. unfold thr_state. rewrite (E3 p Hp). reflexivity.
  - apply forallb_ext_in. intros p Hp. unfold thr_state. rewrite (E3 p Hp). reflexivity.
Qed.
Lemma lw_send_ext cap n a b : c_q a = c_q b -> c_ssem a = c_ssem b ->
  (forall p, In p (seq 0 n) -> t_pc (c_thr a p) = t_pc (c_thr b p)) -> lost_wakeup_send cap n a = lost_wakeup_send cap n b.
Proof.
  intros E1 E2 E3. unfold lost_wakeup_send. rewrite E1, E2. f_equal; [f_equal|].
  - apply existsb_ext_in. intros p Hp. unfold thr_state. rewrite (E3 p Hp). reflexivity.
  - apply forallb_ext_in. intros p Hp. unfold thr_state. rewrite (E3 p Hp). reflexivity.
Qed.

(* the protocol state of the product model with the abstract queue as its FIFO *)
Definition x_view (st : xstate) : cstate := c_with_q (x_c st) (absq (x_m st)).
(* participant p is not in the middle of a queue call (its queue thread stands at the first load, or is not in a call) *)
Definition x_idle (st : xstate) (p : nat) : bool :=
  match t_pc (m_thr (x_m st) p) with Some (MPushLdT _) | Some MPopLdH | None => true | _ => false end.
(* lost wake-up in the product model: the atomic-model predicate on x_view, and nobody is in the middle of a queue call *)
Definition xlost_recv (n : nat) (st : xstate) : bool := lost_wakeup_recv n (x_view st) && forallb (x_idle st) (seq 0 n).
Definition xlost_send (cap : Z) (n : nat) (st : xstate) : bool := lost_wakeup_send cap n (x_view st) && forallb (x_idle st) (seq 0 n).

Section ChanQThm.
  Variable c : cfg.
  Hypothesis Hc : cfg_ok c.
  Variable s : Z.
  Hypothesis Hs0 : 0 <= s.
  Variable Y : Z.
  Variable scripts : list (list op).
  Let cap := c_cap c.

  Lemma nth_first_qop p : nth p (map first_qop scripts) [] = first_qop (nth p scripts []).
  Proof. change (@nil op) with (first_qop []) at 1. apply map_nth. Qed.

  Lemma good_init : s + cap < W64 -> Good c s (x_init c s scripts).
  Proof.
    intros HW. pose proof (cfg_cap_pos c Hc) as Hcp. fold cap in Hcp. constructor.
    - apply (C07_MPMC_Proofs.init_inv c Hc s _ Hs0 HW).
    - simpl. lia.
    - simpl. fold cap. lia.
    - intros p. unfold thr_ok, x_init. cbn [x_c x_m]. simpl. rewrite nth_first_qop.
      destruct (nth p scripts []) as [|o r]; [simpl; auto|]. destruct o; simpl; split; try reflexivity; eexists; split; reflexivity.
  Qed.

  Lemma rel_init fut : Rel c Y fut (x_init c s scripts) (chan_init scripts).
  Proof.
    constructor; try reflexivity.
    - unfold absq. simpl. rewrite zrange_nil. reflexivity.
    - intros p. unfold apc. cbn [x_init x_c x_m].
      destruct (t_pc (c_thr (chan_init scripts) p)) as [pc|] eqn:Epc; [|reflexivity].
      destruct (is_site pc) eqn:Es; [|reflexivity].
      destruct (t_pc (m_thr (mpmc_init c s (map first_qop scripts)) p)) as [mq|] eqn:Eq; [|reflexivity].
      assert (Hmq : whold mq = None /\ rhold mq = None /\ ~ fails_pc (Some mq)).
      { simpl in Eq. rewrite nth_first_qop in Eq. destruct (nth p scripts []) as [|o r]; [discriminate|].
        destruct o; simpl in Eq; inversion Eq; subst mq; repeat split; auto. }
      destruct Hmq as (Hw & Hr & Hnf). rewrite Hw, Hr.
      destruct (doomed c Y fut (x_init c s scripts) p) eqn:Dn; [|reflexivity].
      exfalso. apply Hnf. pose proof (doomed_pc c Y _ _ _ Dn) as Fp. cbn [x_init x_m] in Fp. rewrite Eq in Fp. exact Fp.
  Qed.

  Lemma sim_run fut : forall st a, Good c s st -> nowrap c (x_m (x_run c Y st fut)) -> Rel c Y fut st a ->
    creach cap Y (chan_init scripts) a ->
    exists a', creach cap Y (chan_init scripts) a' /\ Rel c Y [] (x_run c Y st fut) a'.
  Proof.
    induction fut as [|[q f] fut IH]; intros st a G NW R CR; [exists a; auto|]. simpl in NW |- *.
    destruct (sim_step c Hc s Y fut st a q f G NW R) as (a1 & Ha1 & R1).
    assert (NW1 : nowrap c (x_m (x_step c Y st q f))).
    { destruct (x_run_mono c Y (x_step c Y st q f) fut). unfold nowrap in *. lia. }
    apply (IH (x_step c Y st q f) a1); [apply good_step; assumption | exact NW | exact R1|].
    destruct Ha1 as [->| ->]; [exact CR | constructor; exact CR].
  Qed.

  (* REFINEMENT: every run of the channel over the fine-grained queue is matched by a run of the channel over the atomic
     FIFO: same protocol variables and semaphores, FIFO = abstract queue, and every participant that is not in the middle
     of a queue call stands at the same program point with the same remaining script and results *)
  Theorem chanq_refines fut :
    nowrap c (x_m (x_run c Y (x_init c s scripts) fut)) ->
    exists a, creach cap Y (chan_init scripts) a /\
      cfields a = cfields (x_c (x_run c Y (x_init c s scripts) fut)) /\
      c_q a = absq (x_m (x_run c Y (x_init c s scripts) fut)) /\
      forall p, x_idle (x_run c Y (x_init c s scripts) fut) p = true ->
                c_thr a p = c_thr (x_c (x_run c Y (x_init c s scripts) fut)) p.
  Proof.
    intros NW.
    assert (HW : s + cap < W64).
    { destruct (x_run_mono c Y (x_init c s scripts) fut) as [M _]. destruct NW as [NW _]. simpl in M. fold cap in NW. lia. }
    destruct (sim_run fut _ _ (good_init HW) NW (rel_init fut) (creach0 _ _ _)) as (a & CR & R).
    exists a. split; [exact CR|]. split; [apply (r_f _ _ _ _ _ R)|]. split; [apply (r_q _ _ _ _ _ R)|].
    intros p Hi. apply thr_eq; [|apply (r_ops _ _ _ _ _ R) | apply (r_res _ _ _ _ _ R)].
    rewrite (r_pc _ _ _ _ _ R p). unfold apc. set (st := x_run c Y (x_init c s scripts) fut) in *.
    destruct (t_pc (c_thr (x_c st) p)) as [pc|]; [|reflexivity]. destruct (is_site pc); [|reflexivity].
    unfold x_idle in Hi. destruct (t_pc (m_thr (x_m st) p)) as [mq|]; [|reflexivity].
    destruct mq; try discriminate; reflexivity.
  Qed.

  Hypothesis Hn : Z.of_nat (length scripts) + 1 < W64.

  (* NO LOST WAKE-UP for the channel over the real queue algorithm, consumer side and sender side *)
  Theorem chanq_no_lost_wakeup fut :
    nowrap c (x_m (x_run c Y (x_init c s scripts) fut)) ->
    xlost_recv (length scripts) (x_run c Y (x_init c s scripts) fut) = false /\
    xlost_send cap (length scripts) (x_run c Y (x_init c s scripts) fut) = false.
  Proof.
    intros NW. destruct (chanq_refines fut NW) as (a & CR & Hf & Hq & Ht).
    set (st := x_run c Y (x_init c s scripts) fut) in *.
    unfold cfields in Hf. injection Hf as E1 E2 E3 E4 E5 E6.
    pose proof (cfg_cap_pos c Hc) as Hcp. fold cap in Hcp.
    split.
    - unfold xlost_recv. destruct (forallb (x_idle st) (seq 0 (length scripts))) eqn:Fi; [|apply andb_false_r].
      rewrite andb_true_r. rewrite forallb_forall in Fi.
      rewrite <- (lw_recv_ext (length scripts) a (x_view st)); [apply (chan_no_lost_wakeup_recv cap Y scripts a Hn CR) | exact Hq | exact E5 |].
      intros p Hp. rewrite (Ht p (Fi p Hp)). reflexivity.
    - unfold xlost_send. destruct (forallb (x_idle st) (seq 0 (length scripts))) eqn:Fi; [|apply andb_false_r].
      rewrite andb_true_r. rewrite forallb_forall in Fi.
      rewrite <- (lw_send_ext cap (length scripts) a (x_view st)); [apply (chan_no_lost_wakeup_send cap Y scripts a ltac:(lia) Hn CR) | exact Hq | exact E6 |].
      intros p Hp. rewrite (Ht p (Fi p Hp)). reflexivity.
  Qed.
End ChanQThm.

(* the product model runs: one participant sends 7 (push = 5 atomic steps of the queue, then the idler check), the other
   receives it (pop = 5 steps, then notify_senders); the hypotheses of the theorems are met *)
Example chanq_ex :
  let c := cfg_of 2 in
  let scripts := [[OSend 7]; [ORecv]] in
  let fut := [(0,0);(0,0);(0,0);(1,0);(1,0);(0,0);(0,0);(0,0);(1,0);(1,0);(1,0);(1,0);(1,0);(1,0);(1,0);(1,0);(1,0);(1,0)]%nat in
  let st := x_run c 0 (x_init c 0 scripts) fut in
  cfg_ok c /\ nowrap c (x_m st) /\ Z.of_nat (length scripts) + 1 < W64 /\
  t_res (c_thr (x_c st) 0%nat) = [RSent 0 7] /\ t_res (c_thr (x_c st) 1%nat) = [RRecv 0 7] /\ absq (x_m st) = [].
Proof.
  cbv zeta. split; [split; [vm_compute; split; discriminate | reflexivity]|].
  vm_compute. repeat split; reflexivity.
Qed.
