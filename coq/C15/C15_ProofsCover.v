(* C15_ProofsCover.v — what `tiles` means in terms of absolute byte offsets:
   the parts cover exactly [start, stop), are pairwise disjoint and ordered,
   and each lies inside its own block. *)
From Coq Require Import ZArith List Bool Lia.
From PV Require Import Base.U64 C15.C15_Model C15.C15_Spec.
Import ListNotations.
Local Open Scope Z_scope.

Section Cover.
  Variables B L : Z -> Z.
  Local Notation abs_begin p := (B (s_i p) + s_off p).
  Local Notation abs_end p := (B (s_i p) + s_off p + s_len p).

  Lemma tiles_cover : forall l start stop i,
    tiles B L start stop i l ->
    start <= stop /\
    forall x, start <= x < stop <-> exists p, In p l /\ abs_begin p <= x < abs_end p.
  Proof.
    induction l as [|p l IH]; intros start stop i Ht; cbn [tiles] in Ht.
    - split; [lia|]. intros x. split; [lia|]. intros (p & [] & _).
    - destruct Ht as (Hi & Ho & Hs & Hl & Hb & Ht).
      destruct (IH _ _ _ Ht) as (Hle & Hiff). split; [lia|].
      intros x. split.
      + intros Hx. destruct (Z.lt_ge_cases x (start + s_len p)) as [Lt|Ge].
        * exists p. split; [left; reflexivity|]. rewrite Hi. lia.
        * destruct (proj1 (Hiff x) ltac:(lia)) as (q & Hq & Hqx).
          exists q. split; [right; exact Hq|exact Hqx].
      + intros (q & [Hq|Hq] & Hqx).
        * subst q. rewrite Hi in Hqx. lia.
        * pose proof (proj2 (Hiff x) (ex_intro _ q (conj Hq Hqx))). lia.
  Qed.

  Lemma tiles_inside_block : forall l start stop i,
    tiles B L start stop i l ->
    Forall (fun p => 0 <= s_off p /\ 0 < s_len p /\ s_off p + s_len p <= L (s_i p)) l.
  Proof.
    induction l as [|p l IH]; intros start stop i Ht; cbn [tiles] in Ht; constructor.
    - destruct Ht as (Hi & Ho & Hs & Hl & Hb & _). rewrite Hi. lia.
    - destruct Ht as (_ & _ & _ & _ & _ & Ht). eapply IH; eassumption.
  Qed.

  Lemma tiles_after_start : forall l start stop i,
    tiles B L start stop i l -> forall p, In p l -> start <= abs_begin p /\ abs_end p <= stop.
  Proof.
    induction l as [|p l IH]; intros start stop i Ht q Hq; [destruct Hq|].
    cbn [tiles] in Ht. destruct Ht as (Hi & Ho & Hs & Hl & Hb & Ht).
    destruct (tiles_cover _ _ _ _ Ht) as (Hle & _).
    destruct Hq as [Hq|Hq].
    - subst q. rewrite Hi. lia.
    - destruct (IH _ _ _ Ht q Hq). lia.
  Qed.

  (* ordered and pairwise disjoint: an earlier part ends before a later one begins *)
  Lemma tiles_disjoint : forall l start stop i,
    tiles B L start stop i l ->
    forall k1 k2 p1 p2, (k1 < k2)%nat ->
      nth_error l k1 = Some p1 -> nth_error l k2 = Some p2 -> abs_end p1 <= abs_begin p2.
  Proof.
    induction l as [|p l IH]; intros start stop i Ht k1 k2 p1 p2 Hk H1 H2.
    - destruct k1; discriminate H1.
    - cbn [tiles] in Ht. destruct Ht as (Hi & Ho & Hs & Hl & Hb & Ht).
      destruct k2 as [|k2]; [lia|]. cbn [nth_error] in H2.
      destruct k1 as [|k1]; cbn [nth_error] in H1.
      + injection H1 as <-. apply nth_error_In in H2.
        destruct (tiles_after_start _ _ _ _ Ht p2 H2). rewrite Hi. lia.
      + eapply IH; [exact Ht| |exact H1|exact H2]. lia.
  Qed.
End Cover.
