(* C15_ProofsF15.v — the class of known finding F15 is exact: for EVERY
   range_split input whose `end` is representable but that lies beyond the
   guard, round_up(end) wraps to aend = 0 and the parts do not tile. *)
From Coq Require Import ZArith List Bool Lia.
From PV Require Import Base.U64 C15.C15_Model C15.C15_Spec C15.C15_ProofsGeneric C15.C15_Proofs.
Import ListNotations.
Local Open Scope Z_scope.

Lemma init_abegin_any d L offset length : r_abegin (init d L offset length) = d_down (d offset).
Proof.
  unfold init.
  repeat match goal with |- context [if ?c then _ else _] => destruct c end; reflexivity.
Qed.

Lemma init_aend_any d L offset length :
  r_aend (init d L offset length) = d_up (d (wrap (offset + length))).
Proof.
  unfold init.
  repeat match goal with |- context [if ?c then _ else _] => destruct c end; reflexivity.
Qed.

Lemma first_idx_fixed offset length iv : 0 <= offset -> 0 < iv < W64 ->
  s_i (r_first (init (divide_fixed iv) (getlen_fixed iv) offset length)) = offset / iv.
Proof.
  intros Ho Hiv. unfold init, divide_fixed, getlen_fixed. cbn [d_down d_rem d_up].
  pose proof (Z.mod_pos_bound offset iv ltac:(lia)) as MB.
  destruct (wrap (offset / iv + 1) =? _).
  - destruct (negb _); destruct (negb _); reflexivity.
  - cbn [r_first].
    destruct (Z.eqb_spec (offset / iv) (wrap (offset + iv - 1) / iv)) as [E|E].
    + change (sub_nonempty sub0) with false. cbv iota. cbn [s_i]. symmetry. exact E.
    + unfold sub_nonempty. cbn [s_len]. rewrite wrap_small by lia.
      replace (0 <? iv - offset mod iv) with true by (symmetry; apply Z.ltb_lt; lia).
      reflexivity.
Qed.

Lemma f15_class_l offset length iv :
  0 <= offset -> 0 < length -> 0 < iv < W64 -> offset + length < W64 ->
  W64 <= offset + length + iv - 1 ->
  let r := init (divide_fixed iv) (getlen_fixed iv) offset length in
  r_aend r = 0 /\ r_abegin r = offset / iv /\
  (forall fuel, offset / iv + Z.of_nat fuel < W64 ->
     all_parts (getlen_fixed iv) r fuel = if offset / iv =? 0 then Some [] else None) /\
  ~ parts_tile_stmt (fun i => i * iv) (getlen_fixed iv) (divide_fixed iv) offset length.
Proof.
  intros Ho Hl Hiv He Hg. cbv zeta.
  set (r := init (divide_fixed iv) (getlen_fixed iv) offset length).
  assert (A : r_abegin r = offset / iv) by (unfold r; rewrite init_abegin_any; reflexivity).
  assert (E : r_aend r = 0).
  { unfold r. rewrite init_aend_any. rewrite (wrap_small (offset + length)) by lia.
    cbn [divide_fixed d_up]. rewrite wrap_over_small by lia. apply Z.div_small. lia. }
  assert (F : s_i (r_first r) = offset / iv) by (apply first_idx_fixed; lia).
  assert (P : 0 <= offset / iv) by (apply Z.div_pos; lia).
  assert (R : forall fuel, offset / iv + Z.of_nat fuel < W64 ->
     all_parts (getlen_fixed iv) r fuel = if offset / iv =? 0 then Some [] else None).
  { intros fuel Hf. unfold all_parts. destruct (Z.eqb_spec (offset / iv) 0) as [Q|Q].
    - apply all_parts_from_end. rewrite F, E. exact Q.
    - apply all_parts_from_runaway; rewrite ?E, ?F; lia. }
  split; [exact E|]. split; [exact A|]. split; [exact R|].
  unfold parts_tile_stmt. cbv zeta. fold r. intros T.
  destruct (T 0%nat) as (l & Hrun & Hne & _).
  - rewrite A, E. lia.
  - rewrite R in Hrun by (change (Z.of_nat 0) with 0; pose proof (Z.div_le_upper_bound offset iv offset); nia).
    destruct (offset / iv =? 0); [|discriminate Hrun].
    injection Hrun as <-. apply Hne. reflexivity.
Qed.

Lemma f15_class_power2_l offset length iv :
  0 <= offset -> 0 < length -> is_pow2_64 iv -> offset + length < W64 ->
  W64 <= offset + length + iv - 1 ->
  ~ parts_tile_stmt (fun i => i * iv) (getlen_fixed iv) (divide_p2 iv) offset length.
Proof.
  intros Ho Hl P He Hg. unfold parts_tile_stmt. rewrite (init_p2_fixed _ _ _ P).
  destruct P as (k & Hk & ->). pose proof (pow2_lt_W64 k Hk).
  apply (f15_class_l offset length (2 ^ k)); lia.
Qed.

Lemma f15_class_ex :
  0 <= W64 - 100 /\ 0 < 50 /\ 0 < 4096 < W64 /\ W64 - 100 + 50 < W64 /\
  W64 <= W64 - 100 + 50 + 4096 - 1 /\ is_pow2_64 4096.
Proof.
  change W64 with 18446744073709551616.
  repeat split; try lia. exists 12. split; [lia|reflexivity].
Qed.

(* ---- the class of F19 (fixed): with the pre-fix end() EVERY empty un-aligned
   range made aligned_parts() run away ---- *)
Lemma f19_class_generic_l B L divide lo hi offset :
  split_hyps B L divide lo hi offset 0 -> d_rem (divide offset) <> 0 ->
  let r := init divide L offset 0 in
  forall fuel, d_down (divide offset) + 1 + Z.of_nat fuel < W64 ->
  aligned_parts_prefix L r fuel = None.
Proof.
  intros H Hr. cbv zeta. intros fuel Hf.
  destruct (empty_generic_stmt _ _ _ _ _ _ H) as (_ & _ & Hs & _).
  unfold aligned_parts_prefix, aligned_stop_prefix. rewrite Hs.
  rewrite (init_apbegin _ _ _ _ _ _ _ H), (init_apend _ _ _ _ _ _ _ H).
  destruct H as [_ _ _ Hlo _ _ (_ & _ & Hb3) _ Hbi _ _].
  replace (offset + 0) with offset by lia. rewrite Hb3.
  destruct (Z.eqb_spec (d_rem (divide offset)) 0) as [Q|_]; [contradiction|].
  apply aligned_from_runaway; lia.
Qed.

Lemma f19_class_fixed_l offset iv :
  fixed_guard offset 0 iv -> offset mod iv <> 0 ->
  let r := init (divide_fixed iv) (getlen_fixed iv) offset 0 in
  forall fuel, offset / iv + 1 + Z.of_nat fuel < W64 ->
  aligned_parts_prefix (getlen_fixed iv) r fuel = None.
Proof.
  intros G Hm. exact (f19_class_generic_l _ _ _ _ _ _ (fixed_hyps _ _ _ G) Hm).
Qed.
