(* C15_ProofsGeneric.v — the range-split theorems over an abstract block layout
   (B i = absolute start of block i, L i = its length) and an abstract
   Derived::divide that is only described at the two points begin and end. *)
From Coq Require Import ZArith List Bool Lia.
From PV Require Import Base.U64 C15.C15_Model C15.C15_Spec.
Import ListNotations.
Local Open Scope Z_scope.

Lemma W64_gt1 : 1 < W64. Proof. reflexivity. Qed.

Lemma wrap_succ_neq x : 0 <= x < W64 -> wrap (x + 1) <> x.
Proof.
  intros Hx. pose proof W64_gt1 as HW.
  destruct (Z.eq_dec (x + 1) W64) as [E|E].
  - rewrite E. unfold wrap. rewrite Z.mod_same by lia. lia.
  - rewrite wrap_small by lia. lia.
Qed.

(* ---------- aligned_parts iterator ---------- *)
Lemma aligned_from_ok L stop : stop < W64 ->
  forall n fuel i, (n <= fuel)%nat -> 0 <= i -> i + Z.of_nat n = stop ->
  aligned_parts_from L stop fuel i = Some (whole_blocks L i n).
Proof.
  intros Hs. induction n as [|n IH]; intros fuel i Hf Hi Hn.
  - assert (E : i =? stop = true) by (apply Z.eqb_eq; lia).
    destruct fuel; cbn [aligned_parts_from whole_blocks]; rewrite E; reflexivity.
  - destruct fuel as [|fuel]; [lia|].
    cbn [aligned_parts_from whole_blocks].
    destruct (Z.eqb_spec i stop) as [E|E]; [lia|].
    rewrite wrap_small by lia. rewrite IH by lia. reflexivity.
Qed.

Lemma whole_blocks_whole L n : forall i, Forall (whole_block L) (whole_blocks L i n).
Proof.
  induction n as [|n IH]; intros i; cbn [whole_blocks]; constructor.
  - split; reflexivity.
  - apply IH.
Qed.

(* pre-fix behaviour / runaway: starting above the stop index the iterator
   can only reach it by wrapping through 2^64 *)
Lemma aligned_from_runaway L stop : 0 <= stop -> forall fuel i,
  stop < i -> i + Z.of_nat fuel < W64 -> aligned_parts_from L stop fuel i = None.
Proof.
  intros Hs0. induction fuel as [|fuel IH]; intros i Hi Hf; cbn [aligned_parts_from];
    (destruct (Z.eqb_spec i stop) as [E|E]; [lia|]); [reflexivity|].
  rewrite wrap_small by lia. rewrite IH by lia. reflexivity.
Qed.

(* more fuel does not change a finished run *)
Lemma all_parts_from_more L r : forall fuel cur l k,
  all_parts_from L r fuel cur = Some l -> all_parts_from L r (fuel + k) cur = Some l.
Proof.
  induction fuel as [|fuel IH]; intros cur l k Hrun.
  - cbn [all_parts_from] in Hrun. destruct (s_i cur =? r_aend r) eqn:E; [|discriminate].
    destruct (0 + k)%nat; cbn [all_parts_from]; rewrite E; exact Hrun.
  - cbn [all_parts_from Nat.add] in *. destruct (s_i cur =? r_aend r) eqn:E; [exact Hrun|].
    destruct (all_parts_from L r fuel _) as [l'|] eqn:E'; [|discriminate].
    rewrite (IH _ _ k E'). exact Hrun.
Qed.

(* ---------- properties of tiles ---------- *)
Lemma tiles_sum B L : forall l start stop i,
  tiles B L start stop i l -> start + sum_len l = stop.
Proof.
  induction l as [|p l IH]; intros start stop i Ht; cbn [tiles sum_len fold_right] in *.
  - lia.
  - destruct Ht as (_ & _ & _ & _ & _ & Ht). apply IH in Ht. unfold sum_len in Ht. lia.
Qed.

Lemma tiles_indices B L : forall l start stop i,
  tiles B L start stop i l ->
  forall k, (k < length l)%nat -> s_i (nth k l sub0) = i + Z.of_nat k.
Proof.
  induction l as [|p l IH]; intros start stop i Ht k Hk; cbn [length] in Hk; [lia|].
  cbn [tiles] in Ht. destruct Ht as (Hi & _ & _ & _ & _ & Ht).
  destruct k as [|k]; cbn [nth].
  - lia.
  - rewrite (IH _ _ _ Ht k) by lia. lia.
Qed.

Section Generic.
  Variables (B L : Z -> Z) (divide : Z -> divr) (lo hi offset length : Z).
  Hypothesis H : split_hyps B L divide lo hi offset length.

  Local Notation eoff := (offset + length).
  Local Notation abegin := (d_down (divide offset)).
  Local Notation brem := (d_rem (divide offset)).
  Local Notation apbegin := (d_up (divide offset)).
  Local Notation apend := (d_down (divide (offset + length))).
  Local Notation erem := (d_rem (divide (offset + length))).
  Local Notation aend := (d_up (divide (offset + length))).
  Local Notation r := (init divide L offset length).

  Ltac facts :=
    pose proof H as H';
    destruct H' as [Hoff Hlen Hend Hlo Hstep Hpos [Hb1 [Hb2 Hb3]] [He1 [He2 He3]] Hbi Hei Hnw];
    pose proof W64_gt1 as HW.

  Lemma wrap_e : wrap eoff = eoff.
  Proof. facts. apply wrap_small. lia. Qed.

  Lemma B_mono : forall n i, lo <= i -> i + Z.of_nat n <= hi + 1 -> B i <= B (i + Z.of_nat n).
  Proof.
    facts. induction n as [|n IH]; intros i Hi Hn.
    - replace (i + Z.of_nat 0) with i by lia. lia.
    - replace (i + Z.of_nat (S n)) with ((i + Z.of_nat n) + 1) by lia.
      rewrite Hstep by lia. specialize (IH i). pose proof (Hpos (i + Z.of_nat n)). lia.
  Qed.

  Lemma B_le i j : lo <= i <= j -> j <= hi + 1 -> B i <= B j.
  Proof.
    intros Hij Hj. replace j with (i + Z.of_nat (Z.to_nat (j - i))) by lia.
    apply B_mono; lia.
  Qed.

  Lemma B_lt i j : lo <= i < j -> j <= hi + 1 -> B i + L i <= B j.
  Proof.
    facts. intros Hij Hj. rewrite <- Hstep by lia. apply B_le; lia.
  Qed.

  (* order of the four indices, and the enclosure of the range *)
  Lemma geom :
    abegin <= apend /\ apend <= aend <= apend + 1 /\ abegin <= apbegin <= abegin + 1 /\
    eoff <= B aend /\ B aend - L apend < eoff /\ (0 < length -> abegin < aend).
  Proof.
    facts.
    assert (O1 : abegin <= apend).
    { destruct (Z.le_gt_cases abegin apend) as [|G]; [assumption|exfalso].
      pose proof (B_lt apend abegin). lia. }
    pose proof (Hstep apend Hei) as Hs. pose proof (Hpos apend Hei) as Hp.
    rewrite He3, Hb3.
    destruct (Z.eqb_spec erem 0) as [E|E]; destruct (Z.eqb_spec brem 0) as [E'|E'];
      repeat split; try rewrite Hs; try lia;
      intros Hl; (destruct (Z.eq_dec abegin apend) as [Q|Q]; [rewrite Q in *; lia | lia]).
  Qed.

  Lemma init_abegin : r_abegin r = abegin.
  Proof.
    unfold init. rewrite wrap_e.
    repeat match goal with |- context [if ?c then _ else _] => destruct c end; reflexivity.
  Qed.
  Lemma init_aend : r_aend r = aend.
  Proof.
    unfold init. rewrite wrap_e.
    repeat match goal with |- context [if ?c then _ else _] => destruct c end; reflexivity.
  Qed.
  Lemma init_apbegin : r_apbegin r = apbegin.
  Proof.
    unfold init. rewrite wrap_e.
    repeat match goal with |- context [if ?c then _ else _] => destruct c end; reflexivity.
  Qed.
  Lemma init_apend : r_apend r = apend.
  Proof.
    unfold init. rewrite wrap_e.
    repeat match goal with |- context [if ?c then _ else _] => destruct c end; reflexivity.
  Qed.

  (* the classified members in the one-block case *)
  Lemma init_small : wrap (abegin + 1) = aend ->
    let first := mkSub abegin brem length in
    r_first r = first /\
    r_small r = (if negb (brem =? 0) && negb (erem =? 0) then first else sub0) /\
    r_preface r = (if negb (brem =? 0) && (erem =? 0) then first else sub0) /\
    r_postface r = (if (brem =? 0) && negb (erem =? 0) then first else sub0).
  Proof.
    facts. intros Hw first. unfold init. rewrite wrap_e.
    destruct (Z.eqb_spec (wrap (abegin + 1)) aend) as [_|N]; [|contradiction].
    rewrite Hb3, He3.
    destruct (Z.eqb_spec brem 0) as [E|E]; destruct (Z.eqb_spec erem 0) as [E'|E'];
      repeat rewrite Z.eqb_refl;
      repeat match goal with |- context [?a =? ?a + 1] =>
        replace (a =? a + 1) with false by (symmetry; apply Z.eqb_neq; lia) end;
      repeat match goal with |- context [?a + 1 =? ?a] =>
        replace (a + 1 =? a) with false by (symmetry; apply Z.eqb_neq; lia) end;
      cbn [negb andb r_first r_small r_preface r_postface]; repeat split; reflexivity.
  Qed.

  (* the classified members in the several-blocks (or empty aligned) case *)
  Lemma init_big : wrap (abegin + 1) <> aend ->
    r_small r = sub0 /\
    r_preface r = (if brem =? 0 then sub0 else mkSub abegin brem (L abegin - brem)) /\
    r_first r = mkSub abegin brem (L abegin - brem) /\
    r_postface r = (if erem =? 0 then sub0 else mkSub apend 0 erem).
  Proof.
    facts. intros Hw. unfold init. rewrite wrap_e.
    destruct (Z.eqb_spec (wrap (abegin + 1)) aend) as [N|_]; [contradiction|].
    pose proof (Hpos abegin Hbi) as Hp.
    rewrite Hb3, He3.
    destruct (Z.eqb_spec brem 0) as [E|E]; destruct (Z.eqb_spec erem 0) as [E'|E'];
      repeat rewrite Z.eqb_refl;
      repeat match goal with |- context [?a =? ?a + 1] =>
        replace (a =? a + 1) with false by (symmetry; apply Z.eqb_neq; lia) end;
      repeat match goal with |- context [?a + 1 =? ?a] =>
        replace (a + 1 =? a) with false by (symmetry; apply Z.eqb_neq; lia) end;
      try rewrite (wrap_small (L abegin - brem)) by lia;
      unfold sub_nonempty; cbn [s_len sub0 r_first r_small r_preface r_postface];
      try replace (0 <? L abegin - brem) with true by (symmetry; apply Z.ltb_lt; lia);
      cbn [r_first r_small r_preface r_postface];
      repeat split; try reflexivity; rewrite E; rewrite Z.sub_0_r; reflexivity.
  Qed.

  (* ---------- the all_parts loop: tiling ---------- *)
  Section Loop.
    Variable rr : rs.
    Variable stop : Z.
    Variable a : Z.
    Hypothesis Ha : lo <= a.
    Hypothesis Haend : r_aend rr < W64.
    Hypothesis Hpf : forall i', a < i' < r_aend rr ->
      let len' := (if sub_nonempty (r_postface rr) && (s_i (r_postface rr) =? i')
                   then s_len (r_postface rr) else L i') in
      0 < len' /\
      (if i' + 1 =? r_aend rr then B i' + len' = stop /\ len' <= L i' else len' = L i').
    Hypothesis Hst : forall i, a <= i -> i + 1 < r_aend rr -> B (i + 1) = B i + L i.

    Lemma tiles_loop : forall n i off len,
      Z.of_nat n = r_aend rr - i -> i < r_aend rr -> a <= i -> 0 <= off -> 0 < len ->
      (if i + 1 =? r_aend rr then B i + off + len = stop /\ off + len <= L i
       else off + len = L i) ->
      exists l, all_parts_from L rr n (mkSub i off len) = Some l /\ l <> [] /\
                tiles B L (B i + off) stop i l.
    Proof.
      facts.
      induction n as [|n IH]; intros i off len Hn Hlt Hai Hof Hln Hgood; [lia|].
      cbn [all_parts_from s_i s_len].
      destruct (Z.eqb_spec i (r_aend rr)) as [E|E]; [lia|].
      rewrite wrap_small by lia.
      destruct (Z.eqb_spec (i + 1) (r_aend rr)) as [E1|E1].
      - assert (R : all_parts_from L rr n (mkSub (i + 1) 0 len) = Some []).
        { destruct n; cbn [all_parts_from s_i];
            (destruct (Z.eqb_spec (i + 1) (r_aend rr)); [reflexivity|contradiction]). }
        rewrite R.
        exists [mkSub i off len]. split; [reflexivity|]. split; [discriminate|].
        cbn [tiles s_i s_off s_len]. repeat split; lia.
      - specialize (Hpf (i + 1)). cbv zeta in Hpf.
        set (len' := if sub_nonempty (r_postface rr) && (s_i (r_postface rr) =? i + 1)
                     then s_len (r_postface rr) else L (i + 1)) in *.
        destruct Hpf as [Hl1 Hl2]; [lia|].
        destruct (IH (i + 1) 0 len') as (l & Hrun & Hne & Ht); try lia.
        { replace (0 + len') with len' by lia.
          replace (B (i + 1) + 0 + len') with (B (i + 1) + len') by lia. exact Hl2. }
        rewrite Hrun. exists (mkSub i off len :: l).
        split; [reflexivity|]. split; [discriminate|].
        cbn [tiles s_i s_off s_len]. repeat split; try lia.
        replace (B i + off + len) with (B (i + 1) + 0); [exact Ht|].
        rewrite Hst by lia. lia.
    Qed.
  End Loop.

  (* THEOREM parts_tile (generic) *)
  Theorem parts_tile_generic : 0 < length ->
    exists l, all_parts L r (Z.to_nat (r_aend r - r_abegin r)) = Some l /\ l <> [] /\
              tiles B L offset eoff (r_abegin r) l.
  Proof.
    facts. intros Hpos_len.
    destruct geom as (G1 & G2 & G3 & G4 & G5 & G6). specialize (G6 Hpos_len).
    rewrite init_abegin. unfold all_parts.
    assert (Hstep' : forall i, abegin <= i -> i + 1 < r_aend r -> B (i + 1) = B i + L i).
    { rewrite init_aend. intros i Hi1 Hi2. apply Hstep. lia. }
    pose proof (Hstep abegin Hbi) as Hsa. pose proof (Hpos abegin Hbi) as Hpa.
    cut (exists l, all_parts_from L r (Z.to_nat (r_aend r - abegin)) (r_first r) = Some l /\
                   l <> [] /\ tiles B L (B abegin + brem) eoff abegin l);
      [rewrite Hb1; intros X; exact X|].
    destruct (Z.eq_dec (abegin + 1) aend) as [S|S].
    - (* one block *)
      destruct init_small as (F & _); [rewrite wrap_small by lia; exact S|].
      rewrite F.
      apply (tiles_loop r eoff abegin); try assumption; try lia; try (rewrite init_aend; lia).
      rewrite init_aend. destruct (Z.eqb_spec (abegin + 1) aend) as [_|N]; [|contradiction].
      rewrite <- S in G4. lia.
    - (* several blocks *)
      destruct init_big as (_ & _ & F & P); [rewrite wrap_small by lia; exact S|].
      rewrite F.
      apply (tiles_loop r eoff abegin); try assumption; try lia; try (rewrite init_aend; lia).
      + rewrite init_aend, P. intros i' Hi'. cbv zeta.
        pose proof (Hstep apend Hei) as Hs. pose proof (Hpos apend Hei) as Hp.
        rewrite He3 in *.
        destruct (Z.eqb_spec erem 0) as [E|E].
        * unfold sub_nonempty; cbn [sub0 s_len s_i andb]. rewrite Z.ltb_irrefl. cbn [andb].
          pose proof (Hpos i') as Hpi. pose proof (Hstep i') as Hsi.
          destruct (Z.eqb_spec (i' + 1) apend) as [E1|E1]; [|lia].
          rewrite <- E1 in *. lia.
        * unfold sub_nonempty; cbn [s_len s_i].
          replace (0 <? erem) with true by (symmetry; apply Z.ltb_lt; lia). cbn [andb].
          pose proof (Hpos i') as Hpi.
          destruct (Z.eqb_spec apend i') as [E1|E1];
            destruct (Z.eqb_spec (i' + 1) (apend + 1)) as [E2|E2]; try lia.
          subst i'. lia.
      + rewrite init_aend. destruct (Z.eqb_spec (abegin + 1) aend) as [N|_]; [contradiction|]. lia.
  Qed.
End Generic.
