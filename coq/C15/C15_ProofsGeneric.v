(* C15_ProofsGeneric.v — the range-split theorems over an abstract block layout
   (B i = absolute start of block i, L i = its length) and an abstract
   Derived::divide that is only described at the two points begin and end. *)
From Coq Require Import ZArith List Bool Lia.
From PV Require Import Base.U64 C15.C15_Model C15.C15_Spec.
Import ListNotations.
Local Open Scope Z_scope.

Lemma W64_gt1 : 1 < W64. Proof. reflexivity. Qed.

Lemma wrap_succ_neq x : 0 <= x < W64 -> wrap (x + 1) <> x.
Proof.
  intros Hx. pose proof W64_gt1 as HW.
  destruct (Z.eq_dec (x + 1) W64) as [E|E].
  - rewrite E. unfold wrap. rewrite Z.mod_same by lia. lia.
  - rewrite wrap_small by lia. lia.
Qed.

(* ---------- aligned_parts iterator ---------- *)
Lemma aligned_from_ok L stop : stop < W64 ->
  forall n fuel i, (n <= fuel)%nat -> 0 <= i -> i + Z.of_nat n = stop ->
  aligned_parts_from L stop fuel i = Some (whole_blocks L i n).
Proof.
  intros Hs. induction n as [|n IH]; intros fuel i Hf Hi Hn.
  - assert (E : i =? stop = true) by (apply Z.eqb_eq; lia).
    destruct fuel; cbn [aligned_parts_from whole_blocks]; rewrite E; reflexivity.
  - destruct fuel as [|fuel]; [lia|].
    cbn [aligned_parts_from whole_blocks].
    destruct (Z.eqb_spec i stop) as [E|E]; [lia|].
    rewrite wrap_small by lia. rewrite IH by lia. reflexivity.
Qed.

Lemma whole_blocks_whole L n : forall i, Forall (whole_block L) (whole_blocks L i n).
Proof.
  induction n as [|n IH]; intros i; cbn [whole_blocks]; constructor.
  - split; reflexivity.
  - apply IH.
Qed.

(* pre-fix behaviour / runaway: starting above the stop index the iterator
   can only reach it by wrapping through 2^64 *)
Lemma aligned_from_runaway L stop : 0 <= stop -> forall fuel i,
  stop < i -> i + Z.of_nat fuel < W64 -> aligned_parts_from L stop fuel i = None.
Proof.
  intros Hs0. induction fuel as [|fuel IH]; intros i Hi Hf; cbn [aligned_parts_from];
    (destruct (Z.eqb_spec i stop) as [E|E]; [lia|]); [reflexivity|].
  rewrite wrap_small by lia. rewrite IH by lia. reflexivity.
Qed.

(* more fuel does not change a finished run *)
Lemma all_parts_from_more L r : forall fuel cur l k,
  all_parts_from L r fuel cur = Some l -> all_parts_from L r (fuel + k) cur = Some l.
Proof.
  induction fuel as [|fuel IH]; intros cur l k Hrun.
  - cbn [all_parts_from] in Hrun. destruct (s_i cur =? r_aend r) eqn:E; [|discriminate].
    destruct (0 + k)%nat; cbn [all_parts_from]; rewrite E; exact Hrun.
  - cbn [all_parts_from Nat.add] in *. destruct (s_i cur =? r_aend r) eqn:E; [exact Hrun|].
    destruct (all_parts_from L r fuel _) as [l'|] eqn:E'; [|discriminate].
    rewrite (IH _ _ k E'). exact Hrun.
Qed.

(* ---------- properties of tiles ---------- *)
Lemma tiles_sum B L : forall l start stop i,
  tiles B L start stop i l -> start + sum_len l = stop.
Proof.
  induction l as [|p l IH]; intros start stop i Ht; cbn [tiles sum_len fold_right] in *.
  - lia.
  - destruct Ht as (_ & _ & _ & _ & _ & Ht). apply IH in Ht. unfold sum_len in Ht. lia.
Qed.

Lemma tiles_indices B L : forall l start stop i,
  tiles B L start stop i l ->
  forall k, (k < length l)%nat -> s_i (nth k l sub0) = i + Z.of_nat k.
Proof.
  induction l as [|p l IH]; intros start stop i Ht k Hk; cbn [length] in Hk; [lia|].
  cbn [tiles] in Ht. destruct Ht as (Hi & _ & _ & _ & _ & Ht).
  destruct k as [|k]; cbn [nth].
  - lia.
  - rewrite (IH _ _ _ Ht k) by lia. lia.
Qed.

Section Generic.
  Variables (B L : Z -> Z) (divide : Z -> divr) (lo hi offset length : Z).
  Hypothesis H : split_hyps B L divide lo hi offset length.

  Local Notation eoff := (offset + length).
  Local Notation abegin := (d_down (divide offset)).
  Local Notation brem := (d_rem (divide offset)).
  Local Notation apbegin := (d_up (divide offset)).
  Local Notation apend := (d_down (divide (offset + length))).
  Local Notation erem := (d_rem (divide (offset + length))).
  Local Notation aend := (d_up (divide (offset + length))).
  Local Notation r := (init divide L offset length).

  Ltac facts :=
    pose proof H as H';
    destruct H' as [Hoff Hlen Hend Hlo Hstep Hpos [Hb1 [Hb2 Hb3]] [He1 [He2 He3]] Hbi Hei Hnw];
    pose proof W64_gt1 as HW.

  Lemma wrap_e : wrap eoff = eoff.
  Proof. facts. apply wrap_small. lia. Qed.

  Lemma B_mono : forall n i, lo <= i -> i + Z.of_nat n <= hi + 1 -> B i <= B (i + Z.of_nat n).
  Proof.
    facts. induction n as [|n IH]; intros i Hi Hn.
    - replace (i + Z.of_nat 0) with i by lia. lia.
    - replace (i + Z.of_nat (S n)) with ((i + Z.of_nat n) + 1) by lia.
      rewrite Hstep by lia. specialize (IH i). pose proof (Hpos (i + Z.of_nat n)). lia.
  Qed.

  Lemma B_le i j : lo <= i <= j -> j <= hi + 1 -> B i <= B j.
  Proof.
    intros Hij Hj. replace j with (i + Z.of_nat (Z.to_nat (j - i))) by lia.
    apply B_mono; lia.
  Qed.

  Lemma B_lt i j : lo <= i < j -> j <= hi + 1 -> B i + L i <= B j.
  Proof.
    facts. intros Hij Hj. rewrite <- Hstep by lia. apply B_le; lia.
  Qed.

  (* order of the four indices, and the enclosure of the range *)
  Lemma geom :
    abegin <= apend /\ apend <= aend <= apend + 1 /\ abegin <= apbegin <= abegin + 1 /\
    eoff <= B aend /\ B aend - L apend < eoff /\ (0 < length -> abegin < aend).
  Proof.
    facts.
    assert (O1 : abegin <= apend).
    { destruct (Z.le_gt_cases abegin apend) as [|G]; [assumption|exfalso].
      pose proof (B_lt apend abegin). lia. }
    pose proof (Hstep apend Hei) as Hs. pose proof (Hpos apend Hei) as Hp.
    rewrite He3, Hb3.
    destruct (Z.eqb_spec erem 0) as [E|E]; destruct (Z.eqb_spec brem 0) as [E'|E'];
      repeat split; try rewrite Hs; try lia;
      intros Hl; (destruct (Z.eq_dec abegin apend) as [Q|Q]; [rewrite Q in *; lia | lia]).
  Qed.

  Lemma geom2 : apbegin <= aend.
  Proof.
    facts. destruct geom as (G1 & G2 & G3 & _).
    rewrite He3, Hb3 in *.
    destruct (Z.eqb_spec erem 0) as [E|E]; destruct (Z.eqb_spec brem 0) as [E'|E']; try lia;
      (destruct (Z.eq_dec abegin apend) as [Q|Q]; [rewrite Q in *; lia | lia]).
  Qed.

  Lemma init_abegin : r_abegin r = abegin.
  Proof.
    unfold init. rewrite wrap_e.
    repeat match goal with |- context [if ?c then _ else _] => destruct c end; reflexivity.
  Qed.
  Lemma init_aend : r_aend r = aend.
  Proof.
    unfold init. rewrite wrap_e.
    repeat match goal with |- context [if ?c then _ else _] => destruct c end; reflexivity.
  Qed.
  Lemma init_apbegin : r_apbegin r = apbegin.
  Proof.
    unfold init. rewrite wrap_e.
    repeat match goal with |- context [if ?c then _ else _] => destruct c end; reflexivity.
  Qed.
  Lemma init_apend : r_apend r = apend.
  Proof.
    unfold init. rewrite wrap_e.
    repeat match goal with |- context [if ?c then _ else _] => destruct c end; reflexivity.
  Qed.

  (* the classified members in the one-block case *)
  Lemma init_small : wrap (abegin + 1) = aend ->
    let first := mkSub abegin brem length in
    r_first r = first /\
    r_small r = (if negb (brem =? 0) && negb (erem =? 0) then first else sub0) /\
    r_preface r = (if negb (brem =? 0) && (erem =? 0) then first else sub0) /\
    r_postface r = (if (brem =? 0) && negb (erem =? 0) then first else sub0).
  Proof.
    facts. intros Hw first. unfold init. rewrite wrap_e.
    destruct (Z.eqb_spec (wrap (abegin + 1)) aend) as [_|N]; [|contradiction].
    rewrite Hb3, He3.
    destruct (Z.eqb_spec brem 0) as [E|E]; destruct (Z.eqb_spec erem 0) as [E'|E'];
      repeat rewrite Z.eqb_refl;
      repeat match goal with |- context [?a =? ?a + 1] =>
        replace (a =? a + 1) with false by (symmetry; apply Z.eqb_neq; lia) end;
      repeat match goal with |- context [?a + 1 =? ?a] =>
        replace (a + 1 =? a) with false by (symmetry; apply Z.eqb_neq; lia) end;
      cbn [negb andb r_first r_small r_preface r_postface]; repeat split; reflexivity.
  Qed.

  (* the classified members in the several-blocks (or empty aligned) case *)
  Lemma init_big : wrap (abegin + 1) <> aend ->
    r_small r = sub0 /\
    r_preface r = (if brem =? 0 then sub0 else mkSub abegin brem (L abegin - brem)) /\
    r_first r = mkSub abegin brem (L abegin - brem) /\
    r_postface r = (if erem =? 0 then sub0 else mkSub apend 0 erem).
  Proof.
    facts. intros Hw. unfold init. rewrite wrap_e.
    destruct (Z.eqb_spec (wrap (abegin + 1)) aend) as [N|_]; [contradiction|].
    pose proof (Hpos abegin Hbi) as Hp.
    rewrite Hb3, He3.
    destruct (Z.eqb_spec brem 0) as [E|E]; destruct (Z.eqb_spec erem 0) as [E'|E'];
      repeat rewrite Z.eqb_refl;
      repeat match goal with |- context [?a =? ?a + 1] =>
        replace (a =? a + 1) with false by (symmetry; apply Z.eqb_neq; lia) end;
      repeat match goal with |- context [?a + 1 =? ?a] =>
        replace (a + 1 =? a) with false by (symmetry; apply Z.eqb_neq; lia) end;
      try rewrite (wrap_small (L abegin - brem)) by lia;
      unfold sub_nonempty; cbn [s_len sub0 r_first r_small r_preface r_postface];
      try replace (0 <? L abegin - brem) with true by (symmetry; apply Z.ltb_lt; lia);
      cbn [r_first r_small r_preface r_postface];
      repeat split; try reflexivity; rewrite E; rewrite Z.sub_0_r; reflexivity.
  Qed.

  (* ---------- the all_parts loop: tiling ---------- *)
  Section Loop.
    Variable rr : rs.
    Variable stop : Z.
    Variable a : Z.
    Hypothesis Ha : lo <= a.
    Hypothesis Haend : r_aend rr < W64.
    Hypothesis Hpf : forall i', a < i' < r_aend rr ->
      let len' := (if sub_nonempty (r_postface rr) && (s_i (r_postface rr) =? i')
                   then s_len (r_postface rr) else L i') in
      0 < len' /\
      (if i' + 1 =? r_aend rr then B i' + len' = stop /\ len' <= L i' else len' = L i').
    Hypothesis Hst : forall i, a <= i -> i + 1 < r_aend rr -> B (i + 1) = B i + L i.

    Lemma tiles_loop : forall n i off len,
      Z.of_nat n = r_aend rr - i -> i < r_aend rr -> a <= i -> 0 <= off -> 0 < len ->
      (if i + 1 =? r_aend rr then B i + off + len = stop /\ off + len <= L i
       else off + len = L i) ->
      exists l, all_parts_from L rr n (mkSub i off len) = Some l /\ l <> [] /\
                tiles B L (B i + off) stop i l.
    Proof.
      facts.
      induction n as [|n IH]; intros i off len Hn Hlt Hai Hof Hln Hgood; [lia|].
      cbn [all_parts_from s_i s_len].
      destruct (Z.eqb_spec i (r_aend rr)) as [E|E]; [lia|].
      rewrite wrap_small by lia.
      destruct (Z.eqb_spec (i + 1) (r_aend rr)) as [E1|E1].
      - assert (R : all_parts_from L rr n (mkSub (i + 1) 0 len) = Some []).
        { destruct n; cbn [all_parts_from s_i];
            (destruct (Z.eqb_spec (i + 1) (r_aend rr)); [reflexivity|contradiction]). }
        rewrite R.
        exists [mkSub i off len]. split; [reflexivity|]. split; [discriminate|].
        cbn [tiles s_i s_off s_len]. repeat split; lia.
      - specialize (Hpf (i + 1)). cbv zeta in Hpf.
        set (len' := if sub_nonempty (r_postface rr) && (s_i (r_postface rr) =? i + 1)
                     then s_len (r_postface rr) else L (i + 1)) in *.
        destruct Hpf as [Hl1 Hl2]; [lia|].
        destruct (IH (i + 1) 0 len') as (l & Hrun & Hne & Ht); try lia.
        { replace (0 + len') with len' by lia.
          replace (B (i + 1) + 0 + len') with (B (i + 1) + len') by lia. exact Hl2. }
        rewrite Hrun. exists (mkSub i off len :: l).
        split; [reflexivity|]. split; [discriminate|].
        cbn [tiles s_i s_off s_len]. repeat split; try lia.
        replace (B i + off + len) with (B (i + 1) + 0); [exact Ht|].
        rewrite Hst by lia. lia.
    Qed.
  End Loop.

  (* THEOREM parts_tile (generic) *)
  Theorem parts_tile_generic : 0 < length ->
    exists l, all_parts L r (Z.to_nat (r_aend r - r_abegin r)) = Some l /\ l <> [] /\
              tiles B L offset eoff (r_abegin r) l.
  Proof.
    facts. intros Hpos_len.
    destruct geom as (G1 & G2 & G3 & G4 & G5 & G6). specialize (G6 Hpos_len).
    rewrite init_abegin. unfold all_parts.
    assert (Hstep' : forall i, abegin <= i -> i + 1 < r_aend r -> B (i + 1) = B i + L i).
    { rewrite init_aend. intros i Hi1 Hi2. apply Hstep. lia. }
    pose proof (Hstep abegin Hbi) as Hsa. pose proof (Hpos abegin Hbi) as Hpa.
    cut (exists l, all_parts_from L r (Z.to_nat (r_aend r - abegin)) (r_first r) = Some l /\
                   l <> [] /\ tiles B L (B abegin + brem) eoff abegin l);
      [rewrite Hb1; intros X; exact X|].
    destruct (Z.eq_dec (abegin + 1) aend) as [HS|HS].
    - (* one block *)
      destruct init_small as (F & _); [rewrite wrap_small by lia; exact HS|].
      rewrite F.
      apply (tiles_loop r eoff abegin); try assumption; try lia; try (rewrite init_aend; lia).
      rewrite init_aend. destruct (Z.eqb_spec (abegin + 1) aend) as [_|N]; [|contradiction].
      rewrite <- HS in G4. lia.
    - (* several blocks *)
      destruct init_big as (_ & _ & F & P); [rewrite wrap_small by lia; exact HS|].
      rewrite F.
      apply (tiles_loop r eoff abegin); try assumption; try lia; try (rewrite init_aend; lia).
      + rewrite init_aend, P. intros i' Hi'. cbv zeta.
        pose proof (Hstep apend Hei) as Hs. pose proof (Hpos apend Hei) as Hp.
        rewrite He3 in *.
        destruct (Z.eqb_spec erem 0) as [E|E].
        * unfold sub_nonempty; cbn [sub0 s_len s_i andb]. rewrite Z.ltb_irrefl. cbn [andb].
          pose proof (Hpos i') as Hpi. pose proof (Hstep i') as Hsi.
          destruct (Z.eqb_spec (i' + 1) apend) as [E1|E1]; [|lia].
          rewrite <- E1 in *. lia.
        * unfold sub_nonempty; cbn [s_len s_i].
          replace (0 <? erem) with true by (symmetry; apply Z.ltb_lt; lia). cbn [andb].
          pose proof (Hpos i') as Hpi.
          destruct (Z.eqb_spec apend i') as [E1|E1];
            destruct (Z.eqb_spec (i' + 1) (apend + 1)) as [E2|E2]; try lia.
          subst i'. lia.
      + rewrite init_aend. destruct (Z.eqb_spec (abegin + 1) aend) as [N|_]; [contradiction|]. lia.
  Qed.
  (* ---------- aligned_parts ---------- *)
  Lemma small_nonempty_order : sub_nonempty (r_small r) = true -> apend < apbegin.
  Proof.
    facts. intros Hs. destruct geom as (G1 & G2 & _).
    destruct (Z.eq_dec (wrap (abegin + 1)) aend) as [HS|HS].
    - destruct (init_small HS) as (_ & Sm & _). rewrite Sm in Hs.
      rewrite Hb3, He3 in *.
      destruct (Z.eqb_spec brem 0) as [E|E]; destruct (Z.eqb_spec erem 0) as [E'|E'];
        cbn [negb andb] in Hs; try discriminate Hs.
      destruct (Z.eq_dec (abegin + 1) W64) as [Q|Q].
      + rewrite Q in HS. unfold wrap in HS. rewrite Z.mod_same in HS by lia. lia.
      + rewrite wrap_small in HS by lia. lia.
    - destruct (init_big HS) as (Sm & _). rewrite Sm in Hs. discriminate Hs.
  Qed.

  Lemma aligned_ok : forall fuel, (Z.to_nat (apend - apbegin) <= fuel)%nat ->
    aligned_parts L r fuel = Some (whole_blocks L apbegin (Z.to_nat (apend - apbegin))).
  Proof.
    facts. intros fuel Hf. destruct geom as (G1 & G2 & G3 & _). pose proof geom2 as G7.
    unfold aligned_parts, aligned_stop. rewrite init_apbegin, init_apend.
    apply aligned_from_ok; try lia.
    - destruct (sub_nonempty (r_small r) || (apend <? apbegin)); lia.
    - pose proof small_nonempty_order as SO.
      destruct (sub_nonempty (r_small r)); cbn [orb].
      + specialize (SO eq_refl). lia.
      + destruct (Z.ltb_spec apend apbegin); lia.
  Qed.

  (* ---------- the all_parts loop: exact shape ---------- *)
  Lemma all_parts_from_end (rr : rs) : forall n cur,
    s_i cur = r_aend rr -> all_parts_from L rr n cur = Some [].
  Proof.
    intros n cur E. destruct n; cbn [all_parts_from]; rewrite E, Z.eqb_refl; reflexivity.
  Qed.

  Local Notation cur_at i :=
    (mkSub i 0 (if sub_nonempty (r_postface r) && (s_i (r_postface r) =? i)
                then s_len (r_postface r) else L i)).

  Lemma exact_loop : wrap (abegin + 1) <> aend ->
    forall n i, Z.of_nat n = aend - i -> abegin < i < aend ->
    all_parts_from L r n (cur_at i) =
      Some (whole_blocks L i (Z.to_nat (apend - i)) ++ opt_part (r_postface r)).
  Proof.
    facts. intros Hbig. destruct (init_big Hbig) as (_ & _ & _ & P).
    destruct geom as (G1 & G2 & G3 & _).
    induction n as [|n IH]; intros i Hn Hi; [lia|].
    cbn [all_parts_from s_i s_len]. rewrite init_aend.
    destruct (Z.eqb_spec i aend) as [E|E]; [lia|].
    rewrite wrap_small by lia.
    destruct (Z.eqb_spec (i + 1) aend) as [E1|E1].
    - rewrite all_parts_from_end by (rewrite init_aend; exact E1).
      f_equal. rewrite P. rewrite He3 in *.
      destruct (Z.eqb_spec erem 0) as [Q|Q].
      + replace (Z.to_nat (apend - i)) with 1%nat by lia.
        unfold opt_part, sub_nonempty. cbn [sub0 s_len s_i whole_blocks app].
        rewrite Z.ltb_irrefl. cbn [andb]. reflexivity.
      + replace (Z.to_nat (apend - i)) with 0%nat by lia.
        unfold opt_part, sub_nonempty. cbn [s_len s_i whole_blocks app].
        replace (0 <? erem) with true by (symmetry; apply Z.ltb_lt; lia).
        replace (apend =? i) with true by (symmetry; apply Z.eqb_eq; lia).
        cbn [andb]. f_equal. f_equal. lia.
    - rewrite IH by lia. f_equal.
      replace (Z.to_nat (apend - i)) with (S (Z.to_nat (apend - (i + 1)))) by lia.
      cbn [whole_blocks app]. f_equal.
      rewrite P. destruct (Z.eqb_spec erem 0) as [Q|Q].
      + unfold sub_nonempty. cbn [sub0 s_len]. rewrite Z.ltb_irrefl. reflexivity.
      + cbn [s_i]. replace (apend =? i) with false by (symmetry; apply Z.eqb_neq; lia).
        rewrite andb_false_r. reflexivity.
  Qed.

  (* THEOREM classification_consistent (generic) *)
  Theorem classification_consistent_generic : 0 < length ->
    let fuel := Z.to_nat (r_aend r - r_abegin r) in
    let al := whole_blocks L (r_apbegin r) (Z.to_nat (r_apend r - r_apbegin r)) in
    aligned_parts L r fuel = Some al /\ Forall (whole_block L) al /\
    (if sub_nonempty (r_small r)
     then all_parts L r fuel = Some [r_small r] /\ al = []
     else all_parts L r fuel = Some (opt_part (r_preface r) ++ al ++ opt_part (r_postface r))).
  Proof.
    facts. intros Hpos_len. cbv zeta.
    destruct geom as (G1 & G2 & G3 & G4 & G5 & G6). specialize (G6 Hpos_len).
    rewrite init_abegin, init_aend, init_apbegin, init_apend.
    split; [apply aligned_ok; lia|]. split; [apply whole_blocks_whole|].
    unfold all_parts.
    pose proof (Hpos abegin Hbi) as Hpa. pose proof (Hstep abegin Hbi) as Hsa.
    destruct (Z.eq_dec (abegin + 1) aend) as [HS|HS].
    - (* one block *)
      assert (HS' : wrap (abegin + 1) = aend) by (rewrite wrap_small by lia; exact HS).
      destruct (init_small HS') as (F & Sm & Pr & Po). rewrite F, Sm, Pr, Po.
      replace (Z.to_nat (aend - abegin)) with 1%nat by lia.
      cbn [all_parts_from s_i s_len]. rewrite init_aend.
      destruct (Z.eqb_spec abegin aend) as [Q|_]; [lia|].
      rewrite HS'. rewrite Z.eqb_refl.
      assert (NE : sub_nonempty (mkSub abegin brem length) = true)
        by (unfold sub_nonempty; cbn [s_len]; apply Z.ltb_lt; lia).
      rewrite Hb3, He3 in *.
      destruct (Z.eqb_spec brem 0) as [E|E]; destruct (Z.eqb_spec erem 0) as [E'|E'];
        cbn [negb andb]; unfold opt_part; try rewrite NE;
        change (sub_nonempty sub0) with false; cbv iota.
      + (* exactly one aligned block *)
        replace (Z.to_nat (apend - abegin)) with 1%nat by lia.
        cbn [whole_blocks app]. do 2 f_equal. rewrite <- HS in He1. f_equal; lia.
      + replace (Z.to_nat (apend - abegin)) with 0%nat by lia. reflexivity.
      + replace (Z.to_nat (apend - (abegin + 1))) with 0%nat by lia. reflexivity.
      + replace (Z.to_nat (apend - (abegin + 1))) with 0%nat by lia. split; reflexivity.
    - (* several blocks *)
      assert (HS' : wrap (abegin + 1) <> aend) by (rewrite wrap_small by lia; exact HS).
      destruct (init_big HS') as (Sm & Pr & F & Po). rewrite F, Sm, Pr.
      change (sub_nonempty sub0) with false. cbv iota.
      replace (Z.to_nat (aend - abegin)) with (S (Z.to_nat (aend - (abegin + 1)))) by lia.
      cbn [all_parts_from s_i s_len]. rewrite init_aend.
      destruct (Z.eqb_spec abegin aend) as [Q|_]; [lia|].
      rewrite wrap_small by lia.
      destruct (Z.eqb_spec (abegin + 1) aend) as [Q|_]; [contradiction|].
      rewrite (exact_loop HS') by lia. f_equal.
      rewrite Hb3.
      destruct (Z.eqb_spec brem 0) as [E|E]; unfold opt_part at 2.
      + change (sub_nonempty sub0) with false. cbv iota. cbn [app].
        replace (Z.to_nat (apend - abegin)) with (S (Z.to_nat (apend - (abegin + 1)))) by lia.
        cbn [whole_blocks app]. f_equal. f_equal; lia.
      + unfold sub_nonempty at 1. cbn [s_len].
        replace (0 <? L abegin - brem) with true by (symmetry; apply Z.ltb_lt; lia).
        reflexivity.
  Qed.

  (* THEOREM aligned_enclose (generic) *)
  Theorem aligned_enclose_generic :
    B (r_abegin r) <= offset < B (r_abegin r) + L (r_abegin r) /\
    eoff <= B (r_aend r) /\ B (r_aend r) - L (r_apend r) < eoff /\
    (0 < length -> B (r_aend r) - L (r_aend r - 1) < eoff).
  Proof.
    facts. destruct geom as (G1 & G2 & G3 & G4 & G5 & G6).
    rewrite init_abegin, init_aend, init_apend.
    repeat split; try lia.
    intros Hl. specialize (G6 Hl). rewrite He3 in *.
    destruct (Z.eqb_spec erem 0) as [E|E].
    - pose proof (Hpos (apend - 1)). lia.
    - replace (apend + 1 - 1) with apend by lia. lia.
  Qed.

  (* THEOREM empty_range (generic) *)
  Theorem empty_range_generic : length = 0 ->
    all_parts L r (Z.to_nat (r_aend r - r_abegin r)) =
      Some (if d_rem (divide offset) =? 0 then [] else [mkSub (r_abegin r) (d_rem (divide offset)) 0]) /\
    (forall fuel, aligned_parts L r fuel = Some []) /\
    sub_nonempty (r_small r) = false /\ sub_nonempty (r_preface r) = false /\
    sub_nonempty (r_postface r) = false.
  Proof.
    facts. intros L0.
    assert (Heq : divide (offset + length) = divide offset) by (rewrite L0, Z.add_0_r; reflexivity).
    pose proof geom as G. pose proof aligned_ok as AO.
    pose proof init_small as IS. pose proof init_big as IB. cbv zeta in IS.
    pose proof init_aend as IAE.
    rewrite init_abegin. unfold all_parts.
    rewrite Heq in He1, He2, He3, Hei, Hnw, G, AO, IS, IB, IAE. try rewrite Heq.
    destruct G as (_ & _ & G3 & _).
    rewrite Hb3 in *.
    destruct (Z.eqb_spec brem 0) as [E|E].
    - (* aligned empty range: no part at all *)
      assert (HS : wrap (abegin + 1) <> abegin) by (apply wrap_succ_neq; lia).
      destruct (IB HS) as (Sm & Pr & F & Po). rewrite Sm, Pr, Po, F. rewrite IAE.
      replace (Z.to_nat (abegin - abegin)) with 0%nat by lia.
      cbn [all_parts_from s_i]. rewrite IAE, Z.eqb_refl.
      repeat split; try reflexivity.
      intros fuel. rewrite AO by lia.
      replace (Z.to_nat (abegin - abegin)) with 0%nat by lia. reflexivity.
    - (* un-aligned empty range: one part of length 0 (F19 lived here) *)
      assert (HS : wrap (abegin + 1) = abegin + 1) by (apply wrap_small; lia).
      destruct (IS HS) as (F & Sm & Pr & Po). rewrite Sm, Pr, Po, F.
      rewrite IAE. replace (Z.to_nat (abegin + 1 - abegin)) with 1%nat by lia.
      cbn [all_parts_from s_i s_len negb andb]. rewrite IAE.
      destruct (Z.eqb_spec abegin (abegin + 1)) as [Q|_]; [lia|].
      rewrite HS, Z.eqb_refl.
      unfold sub_nonempty. cbn [s_len sub0].
      repeat split; try reflexivity; try (rewrite L0; reflexivity).
      intros fuel. rewrite AO by lia.
      replace (Z.to_nat (abegin - (abegin + 1))) with 0%nat by lia. reflexivity.
  Qed.
  (* ---------- the same, for any sufficient fuel (statement forms of C15_Spec) ---------- *)
  Lemma all_parts_enough : forall l fuel,
    all_parts L r (Z.to_nat (r_aend r - r_abegin r)) = Some l ->
    (Z.to_nat (r_aend r - r_abegin r) <= fuel)%nat -> all_parts L r fuel = Some l.
  Proof.
    intros l fuel Hrun Hf. unfold all_parts in *.
    replace fuel with (Z.to_nat (r_aend r - r_abegin r) + (fuel - Z.to_nat (r_aend r - r_abegin r)))%nat by lia.
    apply all_parts_from_more. exact Hrun.
  Qed.

  Theorem parts_tile_generic_stmt : 0 < length -> parts_tile_stmt B L divide offset length.
  Proof.
    intros Hl. unfold parts_tile_stmt. cbv zeta. intros fuel Hf.
    destruct (parts_tile_generic Hl) as (l & Hrun & Hne & Ht).
    exists l. split; [apply all_parts_enough; assumption|]. split; assumption.
  Qed.

  Theorem classification_generic_stmt : 0 < length -> classification_stmt L divide offset length.
  Proof.
    facts. intros Hl. unfold classification_stmt. cbv zeta. intros fuel Hf.
    destruct (classification_consistent_generic Hl) as (_ & Hw & Hc). cbv zeta in Hw, Hc.
    split; [|split; [exact Hw|]].
    - rewrite init_apbegin, init_apend. apply aligned_ok.
      rewrite init_abegin, init_aend in Hf.
      destruct geom as (G1 & G2 & G3 & _). lia.
    - destruct (sub_nonempty (r_small r)).
      + destruct Hc as [Hc1 Hc2]. split; [apply all_parts_enough; assumption|exact Hc2].
      + apply all_parts_enough; assumption.
  Qed.

  Theorem enclose_generic_stmt : enclose_stmt B L divide offset length.
  Proof. exact aligned_enclose_generic. Qed.
End Generic.

Theorem empty_generic_stmt B L divide lo hi offset :
  split_hyps B L divide lo hi offset 0 -> empty_stmt L divide offset.
Proof.
  intros H. unfold empty_stmt. cbv zeta.
  destruct (empty_range_generic B L divide lo hi offset 0 H eq_refl) as (Ha & Hal & Hs).
  split; [|split; assumption].
  intros fuel Hf. apply (all_parts_enough L divide offset 0); assumption.
Qed.
