From Coq Require Import ZArith List.
From PV Require Import Base.U64 C15.C15_Model C15.C15_Proofs.
Theorem c15_placeholder : True. Proof. exact placeholder. Qed.
Print Assumptions c15_placeholder.
