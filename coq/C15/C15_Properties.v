(* C15_Properties.v — property theorems of C15 (range split).  Statements only;
   every proof is `exact <lemma of C15_Proofs / C15_ProofsGeneric>`.
   Vocabulary (C15_Spec.v): tiles, div_spec, split_hyps, whole_blocks, opt_part,
   parts_tile_stmt, classification_stmt, enclose_stmt, empty_stmt,
   fixed_guard, is_pow2_64, kp_ok, vi_guard. *)
From Coq Require Import ZArith List.
From PV Require Import Base.U64 C15.C15_Model C15.C15_Spec C15.C15_ProofsGeneric C15.C15_ProofsCover C15.C15_Proofs C15.C15_ProofsF15.
Import ListNotations.
Local Open Scope Z_scope.

(* ------------------------------------------------------------------ generic *)
(* any splitter whose divide() is correct at `begin` and `end` w.r.t. a block
   layout B/L (split_hyps) tiles a non-empty range exactly, block by block *)
Theorem parts_tile_generic : forall B L divide lo hi offset length,
  split_hyps B L divide lo hi offset length -> 0 < length ->
  let r := init divide L offset length in
  exists l, all_parts L r (Z.to_nat (r_aend r - r_abegin r)) = Some l /\ l <> [] /\
            tiles B L offset (offset + length) (r_abegin r) l.
Proof. exact C15_ProofsGeneric.parts_tile_generic. Qed.
Print Assumptions parts_tile_generic.

Theorem parts_tile_generic_anyfuel : forall B L divide lo hi offset length,
  split_hyps B L divide lo hi offset length -> 0 < length ->
  parts_tile_stmt B L divide offset length.
Proof. exact parts_tile_generic_stmt. Qed.
Print Assumptions parts_tile_generic_anyfuel.

(* consequences of `tiles`: the lengths add up to the range, indices count up *)
Theorem tiles_total_length : forall B L l start stop i,
  tiles B L start stop i l -> start + sum_len l = stop.
Proof. exact tiles_sum. Qed.
Print Assumptions tiles_total_length.

Theorem tiles_consecutive_indices : forall B L l start stop i,
  tiles B L start stop i l ->
  forall k, (k < length l)%nat -> s_i (nth k l sub0) = i + Z.of_nat k.
Proof. exact tiles_indices. Qed.
Print Assumptions tiles_consecutive_indices.

(* in absolute byte offsets: the parts cover exactly [start, stop) ... *)
Theorem tiles_cover_exactly : forall B L l start stop i,
  tiles B L start stop i l ->
  start <= stop /\
  forall x, start <= x < stop <->
            exists p, In p l /\ B (s_i p) + s_off p <= x < B (s_i p) + s_off p + s_len p.
Proof. exact tiles_cover. Qed.
Print Assumptions tiles_cover_exactly.

(* ... are ordered and pairwise disjoint ... *)
Theorem tiles_parts_disjoint : forall B L l start stop i,
  tiles B L start stop i l ->
  forall k1 k2 p1 p2, (k1 < k2)%nat ->
    nth_error l k1 = Some p1 -> nth_error l k2 = Some p2 ->
    B (s_i p1) + s_off p1 + s_len p1 <= B (s_i p2) + s_off p2.
Proof. exact tiles_disjoint. Qed.
Print Assumptions tiles_parts_disjoint.

(* ... and each is non-empty and inside its own block *)
Theorem tiles_parts_inside_block : forall B L l start stop i,
  tiles B L start stop i l ->
  Forall (fun p => 0 <= s_off p /\ 0 < s_len p /\ s_off p + s_len p <= L (s_i p)) l.
Proof. exact tiles_inside_block. Qed.
Print Assumptions tiles_parts_inside_block.

Theorem classification_consistent_generic : forall B L divide lo hi offset length,
  split_hyps B L divide lo hi offset length -> 0 < length ->
  classification_stmt L divide offset length.
Proof. exact classification_generic_stmt. Qed.
Print Assumptions classification_consistent_generic.

Theorem aligned_enclose_generic : forall B L divide lo hi offset length,
  split_hyps B L divide lo hi offset length ->
  enclose_stmt B L divide offset length.
Proof. exact enclose_generic_stmt. Qed.
Print Assumptions aligned_enclose_generic.

Theorem empty_range_generic : forall B L divide lo hi offset,
  split_hyps B L divide lo hi offset 0 -> empty_stmt L divide offset.
Proof. exact empty_generic_stmt. Qed.
Print Assumptions empty_range_generic.

Example split_hyps_nonvacuous :
  split_hyps (fun i => i * 4) (getlen_fixed 4) (divide_fixed 4) 0 W64 5 10.
Proof. exact split_hyps_ex. Qed.

(* -------------------------------------------------------------- range_split *)
Theorem parts_tile_fixed : forall offset length iv,
  fixed_guard offset length iv -> 0 < length ->
  parts_tile_stmt (fun i => i * iv) (getlen_fixed iv) (divide_fixed iv) offset length.
Proof. exact parts_tile_fixed_l. Qed.
Print Assumptions parts_tile_fixed.

Theorem classification_consistent_fixed : forall offset length iv,
  fixed_guard offset length iv -> 0 < length ->
  classification_stmt (getlen_fixed iv) (divide_fixed iv) offset length.
Proof. exact classification_fixed_l. Qed.
Print Assumptions classification_consistent_fixed.

(* stated on multiply() itself, i.e. on aligned_begin_offset()/aligned_end_offset() *)
Theorem aligned_enclose_fixed : forall offset length iv,
  fixed_guard offset length iv ->
  enclose_stmt (mult_fixed iv) (getlen_fixed iv) (divide_fixed iv) offset length.
Proof. exact enclose_fixed_l. Qed.
Print Assumptions aligned_enclose_fixed.

Theorem empty_range_fixed : forall offset iv,
  fixed_guard offset 0 iv -> empty_stmt (getlen_fixed iv) (divide_fixed iv) offset.
Proof. exact empty_fixed_l. Qed.
Print Assumptions empty_range_fixed.

Example fixed_guard_nonvacuous :
  fixed_guard 5 10 4 /\ 0 < 10 /\ fixed_guard (W64 - 4096) 4095 1 /\ fixed_guard 7 0 3.
Proof. exact fixed_guard_ex. Qed.

Example parts_tile_fixed_instance :
  all_parts (getlen_fixed 4) (init (divide_fixed 4) (getlen_fixed 4) 5 10) 3
  = Some [mkSub 1 1 3; mkSub 2 0 4; mkSub 3 0 3].
Proof. exact parts_tile_ex. Qed.

(* ------------------------------------------------------- range_split_power2 *)
(* the shift/mask arithmetic is the / and % arithmetic, for every x *)
Theorem power2_divide_is_fixed : forall k x, 0 <= k < 64 ->
  divide_p2 (2 ^ k) x = divide_fixed (2 ^ k) x.
Proof. exact divide_p2_fixed. Qed.
Print Assumptions power2_divide_is_fixed.

Theorem power2_run_is_fixed : forall fuel offset length iv, is_pow2_64 iv ->
  run_p2 fuel offset length iv = run_fixed fuel offset length iv.
Proof. exact run_p2_fixed. Qed.
Print Assumptions power2_run_is_fixed.

Theorem parts_tile_power2 : forall offset length iv,
  fixed_guard offset length iv -> is_pow2_64 iv -> 0 < length ->
  parts_tile_stmt (fun i => i * iv) (getlen_fixed iv) (divide_p2 iv) offset length.
Proof. exact parts_tile_power2_l. Qed.
Print Assumptions parts_tile_power2.

Theorem classification_consistent_power2 : forall offset length iv,
  fixed_guard offset length iv -> is_pow2_64 iv -> 0 < length ->
  classification_stmt (getlen_fixed iv) (divide_p2 iv) offset length.
Proof. exact classification_power2_l. Qed.
Print Assumptions classification_consistent_power2.

Theorem aligned_enclose_power2 : forall offset length iv,
  fixed_guard offset length iv -> is_pow2_64 iv ->
  enclose_stmt (mult_p2 iv) (getlen_fixed iv) (divide_p2 iv) offset length.
Proof. exact enclose_power2_l. Qed.
Print Assumptions aligned_enclose_power2.

Theorem empty_range_power2 : forall offset iv,
  fixed_guard offset 0 iv -> is_pow2_64 iv ->
  empty_stmt (getlen_fixed iv) (divide_p2 iv) offset.
Proof. exact empty_power2_l. Qed.
Print Assumptions empty_range_power2.

Example power2_guard_nonvacuous :
  fixed_guard 5 10 4 /\ is_pow2_64 4 /\ is_pow2_64 1 /\ is_pow2_64 9223372036854775808.
Proof. exact pow2_guard_ex. Qed.

(* ----------------------------------------------------------- range_split_vi *)
Theorem parts_tile_vi : forall kp, kp_ok kp -> forall offset length,
  vi_guard offset length -> 0 < length ->
  parts_tile_stmt (kp_nth kp) (getlen_vi kp) (divide_vi kp) offset length.
Proof. exact parts_tile_vi_s. Qed.
Print Assumptions parts_tile_vi.

Theorem classification_consistent_vi : forall kp, kp_ok kp -> forall offset length,
  vi_guard offset length -> 0 < length ->
  classification_stmt (getlen_vi kp) (divide_vi kp) offset length.
Proof. exact classification_vi_s. Qed.
Print Assumptions classification_consistent_vi.

Theorem aligned_enclose_vi : forall kp, kp_ok kp -> forall offset length,
  vi_guard offset length ->
  enclose_stmt (mult_vi kp) (getlen_vi kp) (divide_vi kp) offset length.
Proof. exact enclose_vi_s. Qed.
Print Assumptions aligned_enclose_vi.

Theorem empty_range_vi : forall kp, kp_ok kp -> forall offset,
  vi_guard offset 0 -> empty_stmt (getlen_vi kp) (divide_vi kp) offset.
Proof. exact empty_vi_s. Qed.
Print Assumptions empty_range_vi.

Example vi_guard_nonvacuous :
  kp_ok [0; 3; 7; 8; 20; MAX64] /\ vi_guard 2 9 /\ 0 < 9 /\ vi_guard 5 0.
Proof. exact vi_guard_ex. Qed.

(* -------------------------------------------------------------- refutations *)
(* known finding F15: beyond fixed_guard the parts do not tile the range *)
Theorem f15_refuted :
  let offset := W64 - 100 in let length := 50 in let iv := 4096 in
  let r := init (divide_fixed iv) (getlen_fixed iv) offset length in
  in_u64 offset /\ in_u64 (offset + length) /\ 0 < length /\ ~ fixed_guard offset length iv /\
  r_abegin r = 2 ^ 52 - 1 /\ r_aend r = 0 /\
  (forall fuel, Z.of_nat fuel < 2 ^ 63 -> all_parts (getlen_fixed iv) r fuel = None) /\
  ~ parts_tile_stmt (fun i => i * iv) (getlen_fixed iv) (divide_fixed iv) offset length.
Proof. exact f15_refuted_l. Qed.
Print Assumptions f15_refuted.

(* the class of F15 is exact: EVERY range_split input with a representable `end`
   beyond the guard has aend = 0 and does not tile (so known_class hides nothing
   that would hold) *)
Theorem f15_class_exact : forall offset length iv,
  0 <= offset -> 0 < length -> 0 < iv < W64 -> offset + length < W64 ->
  W64 <= offset + length + iv - 1 ->
  let r := init (divide_fixed iv) (getlen_fixed iv) offset length in
  r_aend r = 0 /\ r_abegin r = offset / iv /\
  (forall fuel, offset / iv + Z.of_nat fuel < W64 ->
     all_parts (getlen_fixed iv) r fuel = if offset / iv =? 0 then Some [] else None) /\
  ~ parts_tile_stmt (fun i => i * iv) (getlen_fixed iv) (divide_fixed iv) offset length.
Proof. exact f15_class_l. Qed.
Print Assumptions f15_class_exact.

Theorem f15_class_exact_power2 : forall offset length iv,
  0 <= offset -> 0 < length -> is_pow2_64 iv -> offset + length < W64 ->
  W64 <= offset + length + iv - 1 ->
  ~ parts_tile_stmt (fun i => i * iv) (getlen_fixed iv) (divide_p2 iv) offset length.
Proof. exact f15_class_power2_l. Qed.
Print Assumptions f15_class_exact_power2.

Example f15_class_nonvacuous :
  0 <= W64 - 100 /\ 0 < 50 /\ 0 < 4096 < W64 /\ W64 - 100 + 50 < W64 /\
  W64 <= W64 - 100 + 50 + 4096 - 1 /\ is_pow2_64 4096.
Proof. exact f15_class_ex. Qed.

(* F19 (repaired by commit 744eaa1): empty_range_fixed was false for the
   pre-fix aligned_parts_t::end() *)
Theorem empty_range_prefix_refuted :
  let r := init (divide_fixed 2) (getlen_fixed 2) 1 0 in
  fixed_guard 1 0 2 /\
  (forall fuel, Z.of_nat fuel < W64 - 1 -> aligned_parts_prefix (getlen_fixed 2) r fuel = None) /\
  (forall fuel, aligned_parts (getlen_fixed 2) r fuel = Some []).
Proof. exact empty_range_prefix_refuted_l. Qed.
Print Assumptions empty_range_prefix_refuted.

(* the class of F19 is exact as well: with the pre-fix end() EVERY empty range whose
   offset is not on a block boundary made aligned_parts() run away *)
Theorem f19_prefix_class_generic : forall B L divide lo hi offset,
  split_hyps B L divide lo hi offset 0 -> d_rem (divide offset) <> 0 ->
  let r := init divide L offset 0 in
  forall fuel, d_down (divide offset) + 1 + Z.of_nat fuel < W64 ->
  aligned_parts_prefix L r fuel = None.
Proof. exact f19_class_generic_l. Qed.
Print Assumptions f19_prefix_class_generic.

Theorem f19_prefix_class_fixed : forall offset iv,
  fixed_guard offset 0 iv -> offset mod iv <> 0 ->
  let r := init (divide_fixed iv) (getlen_fixed iv) offset 0 in
  forall fuel, offset / iv + 1 + Z.of_nat fuel < W64 ->
  aligned_parts_prefix (getlen_fixed iv) r fuel = None.
Proof. exact f19_class_fixed_l. Qed.
Print Assumptions f19_prefix_class_fixed.
