(* C15_Proofs.v — the three concrete splitters as instances of the generic
   theorems of C15_ProofsGeneric.v, the refutation witnesses (F15, pre-fix F19)
   and the non-vacuity examples. *)
From Coq Require Import ZArith List Bool Lia.
From PV Require Import Base.U64 C15.C15_Model C15.C15_Spec C15.C15_ProofsGeneric.
Import ListNotations.
Local Open Scope Z_scope.

Lemma init_ext d1 d2 L offset length :
  (forall x, d1 x = d2 x) -> init d1 L offset length = init d2 L offset length.
Proof. intros E. unfold init. rewrite !E. reflexivity. Qed.

(* =====================  range_split (fixed interval)  ===================== *)
Lemma div_le_self x iv : 0 <= x -> 0 < iv -> 0 <= x / iv <= x.
Proof.
  intros Hx Hiv. split; [apply Z.div_pos; lia|].
  apply Z.div_le_upper_bound; [lia|]. nia.
Qed.

Lemma div_fixed_spec iv x : 0 < iv -> 0 <= x -> x + iv - 1 < W64 ->
  div_spec (fun i => i * iv) (getlen_fixed iv) x (divide_fixed iv x).
Proof.
  intros Hiv Hx Hg. unfold div_spec, divide_fixed, getlen_fixed. cbn [d_down d_rem d_up].
  pose proof (Z.div_mod x iv ltac:(lia)) as DM.
  pose proof (Z.mod_pos_bound x iv Hiv) as MB.
  split; [lia|]. split; [exact MB|].
  rewrite wrap_small by lia.
  destruct (Z.eqb_spec (x mod iv) 0) as [E|E]; symmetry.
  - apply (Z.div_unique _ _ _ (iv - 1)); lia.
  - apply (Z.div_unique _ _ _ (x mod iv - 1)); lia.
Qed.

Lemma fixed_hyps offset length iv : fixed_guard offset length iv ->
  split_hyps (fun i => i * iv) (getlen_fixed iv) (divide_fixed iv) 0 W64 offset length.
Proof.
  intros (Ho & Hl & Hiv & Hg). pose proof W64_gt1 as HW.
  pose proof (div_le_self offset iv Ho Hiv) as D1.
  pose proof (div_le_self (offset + length) iv ltac:(lia) Hiv) as D2.
  constructor.
  - lia.
  - lia.
  - lia.
  - lia.
  - intros i _. unfold getlen_fixed. lia.
  - intros i _. unfold getlen_fixed. lia.
  - apply div_fixed_spec; lia.
  - apply div_fixed_spec; lia.
  - cbn [divide_fixed d_down]. lia.
  - cbn [divide_fixed d_down]. lia.
  - cbn [divide_fixed d_up]. rewrite wrap_small by lia.
    pose proof (div_le_self (offset + length + iv - 1) iv ltac:(lia) Hiv). lia.
Qed.

(* multiply() does not wrap at abegin and aend under the guard *)
Lemma mult_fixed_exact offset length iv : fixed_guard offset length iv ->
  let r := init (divide_fixed iv) (getlen_fixed iv) offset length in
  mult_fixed iv (r_abegin r) = r_abegin r * iv /\ mult_fixed iv (r_aend r) = r_aend r * iv.
Proof.
  intros G. pose proof (fixed_hyps _ _ _ G) as H. cbv zeta.
  destruct (aligned_enclose_generic _ _ _ _ _ _ _ H) as (E1 & E2 & E3 & _).
  destruct G as (Ho & Hl & Hiv & Hg).
  pose proof (init_abegin _ _ _ _ _ _ _ H) as IA. pose proof (init_aend _ _ _ _ _ _ _ H) as IE.
  set (r := init (divide_fixed iv) (getlen_fixed iv) offset length) in *.
  cbv beta in E1, E2, E3. unfold getlen_fixed in E1, E3.
  assert (A0 : 0 <= r_abegin r).
  { rewrite IA. cbn [divide_fixed d_down]. apply Z.div_pos; lia. }
  assert (A1 : 0 <= r_aend r).
  { rewrite IE. cbn [divide_fixed d_up]. apply Z.div_pos; [apply wrap_range|lia]. }
  pose proof (Z.mul_nonneg_nonneg _ _ A0 (Z.lt_le_incl _ _ Hiv)).
  pose proof (Z.mul_nonneg_nonneg _ _ A1 (Z.lt_le_incl _ _ Hiv)).
  unfold mult_fixed. split; apply wrap_small; lia.
Qed.

Lemma parts_tile_fixed_l offset length iv : fixed_guard offset length iv -> 0 < length ->
  parts_tile_stmt (fun i => i * iv) (getlen_fixed iv) (divide_fixed iv) offset length.
Proof. intros G. exact (parts_tile_generic_stmt _ _ _ _ _ _ _ (fixed_hyps _ _ _ G)). Qed.

Lemma classification_fixed_l offset length iv : fixed_guard offset length iv -> 0 < length ->
  classification_stmt (getlen_fixed iv) (divide_fixed iv) offset length.
Proof. intros G. exact (classification_generic_stmt _ _ _ _ _ _ _ (fixed_hyps _ _ _ G)). Qed.

Lemma enclose_fixed_l offset length iv : fixed_guard offset length iv ->
  enclose_stmt (mult_fixed iv) (getlen_fixed iv) (divide_fixed iv) offset length.
Proof.
  intros G. pose proof (enclose_generic_stmt _ _ _ _ _ _ _ (fixed_hyps _ _ _ G)) as E.
  destruct (mult_fixed_exact _ _ _ G) as [M1 M2].
  unfold enclose_stmt in *. cbv zeta beta in *. rewrite M1, M2. exact E.
Qed.

Lemma empty_fixed_l offset iv : fixed_guard offset 0 iv ->
  empty_stmt (getlen_fixed iv) (divide_fixed iv) offset.
Proof. intros G. exact (empty_generic_stmt _ _ _ _ _ _ (fixed_hyps _ _ _ G)). Qed.

(* =====================  range_split_power2  ===================== *)
Lemma ctz_pow2_nat : forall n : nat, ctz (2 ^ Z.of_nat n) = Z.of_nat n.
Proof.
  induction n as [|n IH]; [reflexivity|].
  rewrite Nat2Z.inj_succ, Z.pow_succ_r by lia.
  assert (P : 0 < 2 ^ Z.of_nat n) by (apply Z.pow_pos_nonneg; lia).
  destruct (2 ^ Z.of_nat n) as [|p|p] eqn:E; try lia.
  change (2 * Z.pos p) with (Z.pos p~0). cbn [ctz ctz_pos]. cbn [ctz] in IH. lia.
Qed.

Lemma ctz_pow2 k : 0 <= k -> ctz (2 ^ k) = k.
Proof. intros Hk. rewrite <- (Z2Nat.id k Hk) at 1. rewrite ctz_pow2_nat. lia. Qed.

Lemma pow2_lt_W64 k : 0 <= k < 64 -> 0 < 2 ^ k < W64.
Proof.
  intros Hk. split; [apply Z.pow_pos_nonneg; lia|].
  rewrite W64_eq. apply Z.pow_lt_mono_r; lia.
Qed.

(* the shift/mask divide IS the / and % divide, at every x *)
Lemma divide_p2_fixed k x : 0 <= k < 64 -> divide_p2 (2 ^ k) x = divide_fixed (2 ^ k) x.
Proof.
  intros Hk. pose proof (pow2_lt_W64 k Hk) as P.
  unfold divide_p2, divide_fixed. rewrite ctz_pow2 by lia.
  rewrite (wrap_small (2 ^ k - 1)) by lia.
  rewrite !Z.shiftr_div_pow2 by lia.
  replace (2 ^ k - 1) with (Z.ones k) by (rewrite Z.ones_equiv; lia).
  rewrite Z.land_ones by lia.
  rewrite Z.ones_equiv. replace (x + Z.pred (2 ^ k)) with (x + 2 ^ k - 1) by lia.
  reflexivity.
Qed.

Lemma mult_p2_fixed k i : 0 <= k < 64 -> mult_p2 (2 ^ k) i = mult_fixed (2 ^ k) i.
Proof.
  intros Hk. unfold mult_p2, mult_fixed. rewrite ctz_pow2 by lia.
  rewrite Z.shiftl_mul_pow2 by lia. reflexivity.
Qed.

Lemma init_p2_fixed iv offset length : is_pow2_64 iv ->
  init (divide_p2 iv) (getlen_fixed iv) offset length =
  init (divide_fixed iv) (getlen_fixed iv) offset length.
Proof.
  intros (k & Hk & ->). apply init_ext. intros x. apply divide_p2_fixed. exact Hk.
Qed.

Lemma run_p2_fixed fuel offset length iv : is_pow2_64 iv ->
  run_p2 fuel offset length iv = run_fixed fuel offset length iv.
Proof.
  intros P. unfold run_p2, run_fixed. rewrite (init_p2_fixed _ _ _ P).
  destruct P as (k & Hk & ->). rewrite !mult_p2_fixed by exact Hk. reflexivity.
Qed.

Lemma parts_tile_power2_l offset length iv : fixed_guard offset length iv -> is_pow2_64 iv ->
  0 < length ->
  parts_tile_stmt (fun i => i * iv) (getlen_fixed iv) (divide_p2 iv) offset length.
Proof.
  intros G P Hl. unfold parts_tile_stmt. rewrite (init_p2_fixed _ _ _ P).
  exact (parts_tile_fixed_l _ _ _ G Hl).
Qed.

Lemma classification_power2_l offset length iv : fixed_guard offset length iv -> is_pow2_64 iv ->
  0 < length -> classification_stmt (getlen_fixed iv) (divide_p2 iv) offset length.
Proof.
  intros G P Hl. unfold classification_stmt. rewrite (init_p2_fixed _ _ _ P).
  exact (classification_fixed_l _ _ _ G Hl).
Qed.

Lemma enclose_power2_l offset length iv : fixed_guard offset length iv -> is_pow2_64 iv ->
  enclose_stmt (mult_p2 iv) (getlen_fixed iv) (divide_p2 iv) offset length.
Proof.
  intros G P. pose proof (enclose_fixed_l _ _ _ G) as E.
  unfold enclose_stmt in *. rewrite (init_p2_fixed _ _ _ P).
  destruct P as (k & Hk & ->). rewrite !mult_p2_fixed by exact Hk. exact E.
Qed.

Lemma empty_power2_l offset iv : fixed_guard offset 0 iv -> is_pow2_64 iv ->
  empty_stmt (getlen_fixed iv) (divide_p2 iv) offset.
Proof.
  intros G P. pose proof (empty_fixed_l _ _ G) as E.
  unfold empty_stmt in *. rewrite (init_p2_fixed _ _ _ P).
  destruct P as (k & Hk & ->). rewrite divide_p2_fixed by exact Hk. exact E.
Qed.

(* =====================  range_split_vi  ===================== *)
Lemma kp_nth_0 a kp : kp_nth (a :: kp) 0 = a.
Proof. reflexivity. Qed.

Lemma kp_nth_S a kp i : 0 < i -> kp_nth (a :: kp) i = kp_nth kp (i - 1).
Proof.
  intros Hi. unfold kp_nth. replace (Z.to_nat i) with (S (Z.to_nat (i - 1))) by lia. reflexivity.
Qed.

Lemma ascending_tail a kp : ascending (a :: kp) -> ascending kp.
Proof. destruct kp as [|b kp]; cbn [ascending]; tauto. Qed.

Lemma ascending_step : forall kp, ascending kp ->
  forall i, 0 <= i -> i + 1 < Z.of_nat (length kp) -> kp_nth kp i < kp_nth kp (i + 1).
Proof.
  induction kp as [|a kp IH]; intros Ha i Hi Hn; cbn [length] in Hn; [lia|].
  destruct (Z.eq_dec i 0) as [E|E].
  - subst i. destruct kp as [|b kp]; cbn [length] in Hn; [lia|].
    change (kp_nth (a :: b :: kp) (0 + 1)) with b. rewrite kp_nth_0.
    cbn [ascending] in Ha. tauto.
  - rewrite !kp_nth_S by lia. replace (i + 1 - 1) with (i - 1 + 1) by lia.
    apply IH; [eapply ascending_tail; eassumption|lia|lia].
Qed.

Lemma ascending_mono kp : ascending kp ->
  forall n i, 0 <= i -> i + Z.of_nat n < Z.of_nat (length kp) ->
  kp_nth kp i <= kp_nth kp (i + Z.of_nat n).
Proof.
  intros Ha. induction n as [|n IH]; intros i Hi Hn.
  - replace (i + Z.of_nat 0) with i by lia. lia.
  - replace (i + Z.of_nat (S n)) with (i + Z.of_nat n + 1) by lia.
    pose proof (ascending_step kp Ha (i + Z.of_nat n)). specialize (IH i). lia.
Qed.

Lemma ascending_le kp i j : ascending kp -> 0 <= i <= j -> j < Z.of_nat (length kp) ->
  kp_nth kp i <= kp_nth kp j.
Proof.
  intros Ha Hij Hj. replace j with (i + Z.of_nat (Z.to_nat (j - i))) by lia.
  apply ascending_mono; [assumption|lia|lia].
Qed.

Lemma ascending_ge_idx kp : ascending kp -> kp_nth kp 0 = 0 ->
  forall n, Z.of_nat n < Z.of_nat (length kp) -> Z.of_nat n <= kp_nth kp (Z.of_nat n).
Proof.
  intros Ha H0. induction n as [|n IH]; intros Hn.
  - change (Z.of_nat 0) with 0. rewrite H0. lia.
  - rewrite Nat2Z.inj_succ in *. unfold Z.succ in *.
    pose proof (ascending_step kp Ha (Z.of_nat n)). lia.
Qed.

Lemma ub_spec : forall kp x,
  0 <= upper_bound kp x <= Z.of_nat (length kp) /\
  (forall j, 0 <= j < upper_bound kp x -> kp_nth kp j <= x) /\
  (upper_bound kp x < Z.of_nat (length kp) -> x < kp_nth kp (upper_bound kp x)).
Proof.
  induction kp as [|a kp IH]; intros x; cbn [upper_bound length].
  - split; [lia|]. split; intros; lia.
  - destruct (Z.ltb_spec x a) as [Lt|Ge].
    + split; [lia|]. split; [intros; lia|]. intros _. rewrite kp_nth_0. exact Lt.
    + destruct (IH x) as (I1 & I2 & I3).
      split; [lia|]. split.
      * intros j Hj. destruct (Z.eq_dec j 0) as [E|E].
        -- subst j. rewrite kp_nth_0. exact Ge.
        -- rewrite kp_nth_S by lia. apply I2. lia.
      * intros Hu. rewrite kp_nth_S by lia.
        replace (1 + upper_bound kp x - 1) with (upper_bound kp x) by lia. apply I3. lia.
Qed.

Section VI.
  Variable kp : list Z.
  Hypothesis Hkp : kp_ok kp.
  Local Notation n := (Z.of_nat (length kp)).

  Lemma kp_len : 2 <= n <= W64.
  Proof.
    destruct Hkp as (Ha & H0 & Hl). split.
    - destruct kp as [|a [|b l]]; cbn [length] in *.
      + cbv in Hl. discriminate Hl.
      + change (Z.of_nat 1 - 1) with 0 in Hl. rewrite H0 in Hl. discriminate Hl.
      + lia.
    - assert (Hn : 0 < n).
      { destruct kp; cbn [length]; [cbv in Hl; discriminate Hl|lia]. }
      pose proof (ascending_ge_idx kp Ha H0 (Z.to_nat (n - 1))) as G.
      rewrite Z2Nat.id in G by lia. rewrite Hl in G. rewrite MAX64_eq in G. lia.
  Qed.

  Lemma kp_range i : 0 <= i < n -> 0 <= kp_nth kp i <= MAX64.
  Proof.
    intros Hi. destruct Hkp as (Ha & H0 & Hl). pose proof kp_len as Hn.
    pose proof (ascending_le kp 0 i Ha ltac:(lia) ltac:(lia)).
    pose proof (ascending_le kp i (n - 1) Ha ltac:(lia) ltac:(lia)). lia.
  Qed.

  Lemma getlen_vi_exact i : 0 <= i <= n - 2 ->
    getlen_vi kp i = kp_nth kp (i + 1) - kp_nth kp i /\ 0 < getlen_vi kp i <= W64.
  Proof.
    intros Hi. destruct Hkp as (Ha & H0 & Hl). unfold getlen_vi.
    pose proof (ascending_step kp Ha i ltac:(lia) ltac:(lia)).
    pose proof (kp_range i ltac:(lia)). pose proof (kp_range (i + 1) ltac:(lia)).
    rewrite MAX64_eq in *. rewrite wrap_small by lia. lia.
  Qed.

  Lemma div_vi_spec x : 0 <= x < MAX64 ->
    div_spec (kp_nth kp) (getlen_vi kp) x (divide_vi kp x) /\
    0 <= d_down (divide_vi kp x) <= n - 2 /\ d_up (divide_vi kp x) < W64.
  Proof.
    intros Hx. destruct Hkp as (Ha & H0 & Hl). pose proof kp_len as Hn.
    destruct (ub_spec kp x) as (U1 & U2 & U3).
    set (u := upper_bound kp x) in *.
    assert (U4 : 1 <= u).
    { destruct (Z.eq_dec u 0) as [E|E]; [|lia]. rewrite E in U3. rewrite H0 in U3. lia. }
    assert (U5 : u <= n - 1).
    { destruct (Z.eq_dec u n) as [E|E]; [|lia]. specialize (U2 (n - 1) ltac:(lia)). lia. }
    specialize (U2 (u - 1) ltac:(lia)). specialize (U3 ltac:(lia)).
    pose proof (kp_range (u - 1) ltac:(lia)) as R1.
    destruct (getlen_vi_exact (u - 1) ltac:(lia)) as [GL _].
    replace (u - 1 + 1) with u in GL by lia.
    rewrite MAX64_eq in *.
    unfold div_spec, divide_vi. fold u. cbn [d_down d_rem d_up].
    rewrite wrap_small by lia. rewrite GL.
    split; [|split; [lia|]].
    - split; [lia|]. split; [lia|].
      destruct (Z.ltb_spec 0 (x - kp_nth kp (u - 1))); destruct (Z.eqb_spec (x - kp_nth kp (u - 1)) 0); lia.
    - destruct (0 <? x - kp_nth kp (u - 1)); lia.
  Qed.

  Lemma vi_hyps offset length : vi_guard offset length ->
    split_hyps (kp_nth kp) (getlen_vi kp) (divide_vi kp) 0 (n - 2) offset length.
  Proof.
    intros (Ho & Hl & Hg). rewrite MAX64_eq in Hg.
    destruct (div_vi_spec offset) as (D1 & D2 & _); [rewrite MAX64_eq; lia|].
    destruct (div_vi_spec (offset + length)) as (E1 & E2 & E3); [rewrite MAX64_eq; lia|].
    constructor; try assumption; try lia.
    - intros i Hi. destruct (getlen_vi_exact i Hi) as [G _]. lia.
    - intros i Hi. apply getlen_vi_exact. exact Hi.
  Qed.

  Lemma parts_tile_vi_s offset length : vi_guard offset length -> 0 < length ->
    parts_tile_stmt (kp_nth kp) (getlen_vi kp) (divide_vi kp) offset length.
  Proof. intros G. exact (parts_tile_generic_stmt _ _ _ _ _ _ _ (vi_hyps _ _ G)). Qed.

  Lemma classification_vi_s offset length : vi_guard offset length -> 0 < length ->
    classification_stmt (getlen_vi kp) (divide_vi kp) offset length.
  Proof. intros G. exact (classification_generic_stmt _ _ _ _ _ _ _ (vi_hyps _ _ G)). Qed.

  Lemma enclose_vi_s offset length : vi_guard offset length ->
    enclose_stmt (mult_vi kp) (getlen_vi kp) (divide_vi kp) offset length.
  Proof. intros G. exact (enclose_generic_stmt _ _ _ _ _ _ _ (vi_hyps _ _ G)). Qed.

  Lemma empty_vi_s offset : vi_guard offset 0 ->
    empty_stmt (getlen_vi kp) (divide_vi kp) offset.
  Proof. intros G. exact (empty_generic_stmt _ _ _ _ _ _ (vi_hyps _ _ G)). Qed.
End VI.

(* =====================  refutations  ===================== *)
(* all_parts started above aend can only finish by wrapping through 2^64 *)
Lemma all_parts_from_runaway L r : 0 <= r_aend r -> forall fuel cur,
  r_aend r < s_i cur -> s_i cur + Z.of_nat fuel < W64 -> all_parts_from L r fuel cur = None.
Proof.
  intros H0. induction fuel as [|fuel IH]; intros cur Hi Hf; cbn [all_parts_from];
    (destruct (Z.eqb_spec (s_i cur) (r_aend r)) as [E|E]; [lia|]); [reflexivity|].
  rewrite IH; [reflexivity| |]; cbn [s_i]; rewrite wrap_small by lia; lia.
Qed.

(* F15: beyond the guard (here offset+length+interval-1 = 2^64+3945) round_up
   wraps: aend = 0 although abegin = 2^52-1, and all_parts() does not finish
   within any realistic number of steps, so the parts do not tile the range. *)
Lemma f15_refuted_l :
  let offset := W64 - 100 in let length := 50 in let iv := 4096 in
  let r := init (divide_fixed iv) (getlen_fixed iv) offset length in
  in_u64 offset /\ in_u64 (offset + length) /\ 0 < length /\ ~ fixed_guard offset length iv /\
  r_abegin r = 2 ^ 52 - 1 /\ r_aend r = 0 /\
  (forall fuel, Z.of_nat fuel < 2 ^ 63 -> all_parts (getlen_fixed iv) r fuel = None) /\
  ~ parts_tile_stmt (fun i => i * iv) (getlen_fixed iv) (divide_fixed iv) offset length.
Proof.
  cbv zeta.
  assert (A : r_abegin (init (divide_fixed 4096) (getlen_fixed 4096) (W64 - 100) 50) = 2 ^ 52 - 1)
    by (vm_compute; reflexivity).
  assert (E : r_aend (init (divide_fixed 4096) (getlen_fixed 4096) (W64 - 100) 50) = 0)
    by (vm_compute; reflexivity).
  assert (F : s_i (r_first (init (divide_fixed 4096) (getlen_fixed 4096) (W64 - 100) 50)) = 2 ^ 52 - 1)
    by (vm_compute; reflexivity).
  assert (R : forall fuel, Z.of_nat fuel < 2 ^ 63 ->
     all_parts (getlen_fixed 4096) (init (divide_fixed 4096) (getlen_fixed 4096) (W64 - 100) 50) fuel = None).
  { intros fuel Hf. unfold all_parts. apply all_parts_from_runaway.
    - rewrite E. lia.
    - rewrite E, F. reflexivity.
    - rewrite F. change (2 ^ 52 - 1) with 4503599627370495. change (2 ^ 63) with 9223372036854775808 in Hf.
      change W64 with 18446744073709551616. lia. }
  split; [unfold in_u64; change W64 with 18446744073709551616; lia|].
  split; [unfold in_u64; change W64 with 18446744073709551616; lia|].
  split; [lia|].
  split; [unfold fixed_guard; change W64 with 18446744073709551616; lia|].
  split; [exact A|]. split; [exact E|]. split; [exact R|].
  unfold parts_tile_stmt. cbv zeta. intros T.
  destruct (T 0%nat) as (l & Hl & _).
  - rewrite A, E. reflexivity.
  - rewrite R in Hl; [discriminate Hl|reflexivity].
Qed.

(* F19 (fixed by commit 744eaa1): with the pre-fix end() the aligned_parts()
   loop of the empty un-aligned range (offset 1, length 0, interval 2) does not
   finish within any fuel below 2^64-1, so empty_stmt was false for it. *)
Lemma empty_range_prefix_refuted_l :
  let r := init (divide_fixed 2) (getlen_fixed 2) 1 0 in
  fixed_guard 1 0 2 /\
  (forall fuel, Z.of_nat fuel < W64 - 1 -> aligned_parts_prefix (getlen_fixed 2) r fuel = None) /\
  (forall fuel, aligned_parts (getlen_fixed 2) r fuel = Some []).
Proof.
  cbv zeta. split; [|split].
  - unfold fixed_guard. change W64 with 18446744073709551616. lia.
  - intros fuel Hf. unfold aligned_parts_prefix.
    change (aligned_stop_prefix (init (divide_fixed 2) (getlen_fixed 2) 1 0)) with 0.
    change (r_apbegin (init (divide_fixed 2) (getlen_fixed 2) 1 0)) with 1.
    apply aligned_from_runaway; lia.
  - assert (G : fixed_guard 1 0 2) by (unfold fixed_guard; change W64 with 18446744073709551616; lia).
    destruct (empty_fixed_l 1 2 G) as (_ & Hal & _). exact Hal.
Qed.

(* =====================  non-vacuity examples  ===================== *)
Lemma fixed_guard_ex : fixed_guard 5 10 4 /\ 0 < 10 /\ fixed_guard (W64 - 4096) 4095 1 /\
                       fixed_guard 7 0 3.
Proof. unfold fixed_guard. change W64 with 18446744073709551616. lia. Qed.

Lemma pow2_guard_ex : fixed_guard 5 10 4 /\ is_pow2_64 4 /\ is_pow2_64 1 /\
                      is_pow2_64 9223372036854775808.
Proof.
  split; [exact (proj1 fixed_guard_ex)|].
  split; [exists 2; split; [lia|reflexivity]|].
  split; [exists 0; split; [lia|reflexivity]|].
  exists 63; split; [lia|reflexivity].
Qed.

Lemma vi_guard_ex : kp_ok [0; 3; 7; 8; 20; MAX64] /\ vi_guard 2 9 /\ 0 < 9 /\ vi_guard 5 0.
Proof.
  split; [|unfold vi_guard; change MAX64 with 18446744073709551615; lia].
  unfold kp_ok. split; [|split; reflexivity].
  cbn [ascending]. change MAX64 with 18446744073709551615. lia.
Qed.

Lemma split_hyps_ex :
  split_hyps (fun i => i * 4) (getlen_fixed 4) (divide_fixed 4) 0 W64 5 10.
Proof. apply fixed_hyps. exact (proj1 fixed_guard_ex). Qed.

(* what the fixed-interval theorem says on a concrete input *)
Lemma parts_tile_ex :
  all_parts (getlen_fixed 4) (init (divide_fixed 4) (getlen_fixed 4) 5 10) 3
  = Some [mkSub 1 1 3; mkSub 2 0 4; mkSub 3 0 3].
Proof. vm_compute. reflexivity. Qed.
