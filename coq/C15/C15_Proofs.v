From Coq Require Import ZArith List Lia.
From PV Require Import Base.U64 C15.C15_Model.
Lemma placeholder : True. Proof. exact I. Qed.
