(* C15_Model.v — executable model of fs/range-split.h and fs/range-split-vi.h.
   Definitions only (no proofs) so that the model still runs when a proof breaks.

   Integers are Z; every uint64_t operation that can wrap in the C++ has the
   wrap (mod 2^64) written out.  The model follows the branch structure of
   basic_range_split::init and of the two iterator types literally. *)
From Coq Require Import ZArith List Bool.
From PV Require Import Base.U64.
Import ListNotations.
Local Open Scope Z_scope.

(* struct sub_range { i, offset, length } *)
Record sub := mkSub { s_i : Z; s_off : Z; s_len : Z }.
Definition sub0 : sub := mkSub 0 0 0.                       (* sub_range() *)
Definition sub_clear (s : sub) : sub := mkSub (s_i s) (s_off s) 0.
Definition sub_nonempty (s : sub) : bool := 0 <? s_len s.  (* operator bool *)

(* result of Derived::divide(x, round_down, remainder, round_up) *)
Record divr := mkDiv { d_down : Z; d_rem : Z; d_up : Z }.

(* the fields of basic_range_split after init() *)
Record rs := mkRS {
  r_begin : Z; r_end : Z;
  r_abegin : Z; r_aend : Z;
  r_apbegin : Z; r_apend : Z;
  r_brem : Z; r_erem : Z;
  r_small : sub; r_preface : sub; r_first : sub; r_postface : sub }.

Section Split.
  Variable divide : Z -> divr.        (* Derived::divide *)
  Variable get_length : Z -> Z.       (* Derived::get_length *)

  (* basic_range_split::init, range-split.h 132-192.  All sub_range members
     are default-constructed (0,0,0) before init runs; clear() only zeroes the
     length, so a cleared member is (0,0,0). *)
  Definition init (offset length : Z) : rs :=
    let b := offset in
    let e := wrap (offset + length) in
    let db := divide b in
    let de := divide e in
    let abegin := d_down db in let brem := d_rem db in let apbegin := d_up db in
    let apend := d_down de in let erem := d_rem de in let aend := d_up de in
    if wrap (abegin + 1) =? aend then
      let first := mkSub abegin brem length in
      if negb (abegin =? apbegin) then
        if negb (aend =? apend)
        then mkRS b e abegin aend apbegin apend brem erem first sub0 first sub0
        else mkRS b e abegin aend apbegin apend brem erem sub0 first first sub0
      else
        if negb (aend =? apend)
        then mkRS b e abegin aend apbegin apend brem erem sub0 sub0 first first
        else mkRS b e abegin aend apbegin apend brem erem sub0 sub0 first sub0
    else
      let preface :=
        if abegin =? apbegin then sub0
        else mkSub abegin brem (wrap (get_length abegin - brem)) in
      let first :=
        if sub_nonempty preface then preface
        else mkSub apbegin 0 (get_length apbegin) in
      let postface :=
        if aend =? apend then sub0 else mkSub apend 0 erem in
      mkRS b e abegin aend apbegin apend brem erem sub0 preface first postface.

  (* all_parts(): `for (it = begin(); it != end(); ++it) yield *it`.
     `it != end` compares only .i with aend; operator++ is lines 233-243.
     Fuel bounds the number of loop iterations; None = fuel exhausted. *)
  Fixpoint all_parts_from (r : rs) (fuel : nat) (cur : sub) : option (list sub) :=
    if s_i cur =? r_aend r then Some [] else
    match fuel with
    | O => None
    | S f =>
      let i' := wrap (s_i cur + 1) in
      let len' :=
        if i' =? r_aend r then s_len cur
        else if sub_nonempty (r_postface r) && (s_i (r_postface r) =? i')
             then s_len (r_postface r) else get_length i' in
      match all_parts_from r f (mkSub i' 0 len') with
      | Some l => Some (cur :: l)
      | None => None
      end
    end.
  Definition all_parts (r : rs) (fuel : nat) : option (list sub) :=
    all_parts_from r fuel (r_first r).

  (* aligned_parts(): iterator(i) = (i, 0, get_length(i)); begin = apbegin,
     end = (small_note || apbegin > apend) ? apbegin : apend; compared by .i only.
     (the `apbegin > apend` disjunct is the repair of finding F19.) *)
  Fixpoint aligned_parts_from (stop : Z) (fuel : nat) (i : Z) : option (list sub) :=
    if i =? stop then Some [] else
    match fuel with
    | O => None
    | S f =>
      match aligned_parts_from stop f (wrap (i + 1)) with
      | Some l => Some (mkSub i 0 (get_length i) :: l)
      | None => None
      end
    end.
  Definition aligned_stop (r : rs) : Z :=
    if sub_nonempty (r_small r) || (r_apend r <? r_apbegin r) then r_apbegin r else r_apend r.
  Definition aligned_parts (r : rs) (fuel : nat) : option (list sub) :=
    aligned_parts_from (aligned_stop r) fuel (r_apbegin r).
End Split.

(* ---- struct range_split (lines 274-296) ---- *)
Definition divide_fixed (iv x : Z) : divr :=
  mkDiv (x / iv) (x mod iv) (wrap (x + iv - 1) / iv).
Definition getlen_fixed (iv : Z) (_ : Z) : Z := iv.
Definition mult_fixed (iv i : Z) : Z := wrap (i * iv).

(* ---- struct range_split_power2 (lines 298-326) ---- *)
Fixpoint ctz_pos (p : positive) : Z :=
  match p with xO p' => 1 + ctz_pos p' | _ => 0 end.
Definition ctz (x : Z) : Z := match x with Zpos p => ctz_pos p | _ => 0 end.
(* interval_shift = __builtin_ffsl(interval) - 1 ; interval > 0 assumed *)
Definition divide_p2 (iv x : Z) : divr :=
  let sh := ctz iv in
  let mask := wrap (iv - 1) in
  mkDiv (Z.shiftr x sh) (Z.land x mask) (Z.shiftr (wrap (x + mask)) sh).
Definition mult_p2 (iv i : Z) : Z := wrap (Z.shiftl i (ctz iv)).

(* ---- struct range_split_vi ---- key_points as a list; n = length. *)
(* std::upper_bound: index of the first key point > x (= n if none). *)
Fixpoint upper_bound (kp : list Z) (x : Z) : Z :=
  match kp with
  | [] => 0
  | k :: kp' => if x <? k then 0 else 1 + upper_bound kp' x
  end.
Definition kp_nth (kp : list Z) (i : Z) : Z := nth (Z.to_nat i) kp 0.
Definition divide_vi (kp : list Z) (x : Z) : divr :=
  let i := upper_bound kp x in
  let rem := wrap (x - kp_nth kp (i - 1)) in
  mkDiv (i - 1) rem (if 0 <? rem then i else i - 1).
Definition getlen_vi (kp : list Z) (i : Z) : Z :=
  wrap (kp_nth kp (i + 1) - kp_nth kp i).
Definition mult_vi (kp : list Z) (i : Z) : Z := kp_nth kp i.

(* ---- what the runner prints for one case ---- *)
Record report := mkReport {
  rp_rs : rs;
  rp_all : option (list sub);
  rp_aligned : option (list sub);
  rp_abo : Z;   (* aligned_begin_offset() *)
  rp_aeo : Z }. (* aligned_end_offset() *)

Definition run_fixed (fuel : nat) (off len iv : Z) : report :=
  let r := init (divide_fixed iv) (getlen_fixed iv) off len in
  mkReport r (all_parts (getlen_fixed iv) r fuel) (aligned_parts (getlen_fixed iv) r fuel)
           (mult_fixed iv (r_abegin r)) (mult_fixed iv (r_aend r)).
Definition run_p2 (fuel : nat) (off len iv : Z) : report :=
  let r := init (divide_p2 iv) (getlen_fixed iv) off len in
  mkReport r (all_parts (getlen_fixed iv) r fuel) (aligned_parts (getlen_fixed iv) r fuel)
           (mult_p2 iv (r_abegin r)) (mult_p2 iv (r_aend r)).
Definition run_vi (fuel : nat) (off len : Z) (kp : list Z) : report :=
  let r := init (divide_vi kp) (getlen_vi kp) off len in
  mkReport r (all_parts (getlen_vi kp) r fuel) (aligned_parts (getlen_vi kp) r fuel)
           (mult_vi kp (r_abegin r)) (mult_vi kp (r_aend r)).
