(* Extraction of the C15 model: ExtrOcamlBasic only, no Extract Constant /
   Extract Inductive of our own; Z, positive, nat stay Coq's datatypes. *)
From Coq Require Import ZArith List.
From PV Require Import Base.U64 C15.C15_Model.
Require Extraction.
Require Import ExtrOcamlBasic.
Extraction "c15_model.ml" run_fixed run_p2 run_vi.
