(* C15_Spec.v — specification predicates for the range-split theorems.
   Definitions only.  The theorems are stated in C15_Properties.v, the proofs
   are in C15_ProofsGeneric.v (abstract block layout) and C15_Proofs.v
   (the three concrete splitters). *)
From Coq Require Import ZArith List Bool.
From PV Require Import Base.U64 C15.C15_Model.
Import ListNotations.
Local Open Scope Z_scope.

Section Spec.
  Variable B : Z -> Z.   (* absolute offset at which block i starts *)
  Variable L : Z -> Z.   (* length of block i (= get_length i) *)

  (* [tiles start stop i l]: the parts of l, in order, have block indices
     i, i+1, ...; the first begins at absolute offset [start]; each part is
     non-empty, lies inside its own block, and the next part begins exactly
     where it ends; the last part ends exactly at [stop]. *)
  Fixpoint tiles (start stop i : Z) (l : list sub) : Prop :=
    match l with
    | [] => start = stop
    | p :: l' =>
        s_i p = i /\ 0 <= s_off p /\ B i + s_off p = start /\
        0 < s_len p /\ s_off p + s_len p <= L i /\
        tiles (start + s_len p) stop (i + 1) l'
    end.

  (* what the theorems need to know about one call of Derived::divide *)
  Definition div_spec (x : Z) (d : divr) : Prop :=
    B (d_down d) + d_rem d = x /\
    0 <= d_rem d < L (d_down d) /\
    d_up d = (if d_rem d =? 0 then d_down d else d_down d + 1).

  (* n whole blocks i, i+1, ... *)
  Fixpoint whole_blocks (i : Z) (n : nat) : list sub :=
    match n with
    | O => []
    | S n' => mkSub i 0 (L i) :: whole_blocks (i + 1) n'
    end.
  Definition whole_block (p : sub) : Prop := s_off p = 0 /\ s_len p = L (s_i p).

  (* The hypotheses of the generic theorems.  Only the two results
     [divide offset] and [divide (offset+length)] are described; the block
     layout is only constrained on the index range lo..hi that contains both
     rounded-down indices. *)
  Record split_hyps (divide : Z -> divr) (lo hi offset length : Z) : Prop := {
    sh_off : 0 <= offset;
    sh_len : 0 <= length;
    sh_end : offset + length < W64;                    (* `end` does not wrap *)
    sh_lo : 0 <= lo;
    sh_step : forall i, lo <= i <= hi -> B (i + 1) = B i + L i;
    sh_pos : forall i, lo <= i <= hi -> 0 < L i <= W64;
    sh_db : div_spec offset (divide offset);
    sh_de : div_spec (offset + length) (divide (offset + length));
    sh_bidx : lo <= d_down (divide offset) <= hi;
    sh_eidx : lo <= d_down (divide (offset + length)) <= hi;
    sh_nowrap : d_up (divide (offset + length)) < W64   (* no index wrap *)
  }.
End Spec.

(* a classified member, as a list: [s] if it exists (operator bool), else [] *)
Definition opt_part (s : sub) : list sub := if sub_nonempty s then [s] else [].

(* total length of a part list *)
Definition sum_len (l : list sub) : Z := fold_right (fun p a => s_len p + a) 0 l.

(* ---- guards of the three concrete splitters ---- *)
(* range_split / range_split_power2: the class outside of which F15 lives *)
Definition fixed_guard (offset length iv : Z) : Prop :=
  0 <= offset /\ 0 <= length /\ 0 < iv /\ offset + length + iv - 1 < W64.
Definition is_pow2_64 (iv : Z) : Prop := exists k, 0 <= k < 64 /\ iv = 2 ^ k.

(* range_split_vi: the documented contract of the key points *)
Fixpoint ascending (kp : list Z) : Prop :=
  match kp with
  | a :: (b :: _) as t => a < b /\ ascending t
  | _ => True
  end.
Definition kp_ok (kp : list Z) : Prop :=
  ascending kp /\ kp_nth kp 0 = 0 /\ kp_nth kp (Z.of_nat (length kp) - 1) = MAX64.
Definition vi_guard (offset length : Z) : Prop :=
  0 <= offset /\ 0 <= length /\ offset + length < MAX64.

(* ---- the pre-fix aligned_parts_t::end() (before commit 744eaa1, F19) ---- *)
Definition aligned_stop_prefix (r : rs) : Z :=
  if sub_nonempty (r_small r) then r_apbegin r else r_apend r.
Definition aligned_parts_prefix (get_length : Z -> Z) (r : rs) (fuel : nat) : option (list sub) :=
  aligned_parts_from get_length (aligned_stop_prefix r) fuel (r_apbegin r).

(* ---- the four statements, for a splitter given by (B, L, divide) ---- *)
(* parts_tile: with enough fuel (number of touched blocks) all_parts() finishes,
   is non-empty and tiles [offset, offset+length) block by block *)
Definition parts_tile_stmt (B L : Z -> Z) (divide : Z -> divr) (offset length : Z) : Prop :=
  let r := init divide L offset length in
  forall fuel, (Z.to_nat (r_aend r - r_abegin r) <= fuel)%nat ->
  exists l, all_parts L r fuel = Some l /\ l <> [] /\
            tiles B L offset (offset + length) (r_abegin r) l.

(* classification_consistent: aligned_parts() = the whole blocks apbegin..apend-1;
   small_note is the only part if it exists, else all_parts() is
   preface? ++ aligned parts ++ postface? *)
Definition classification_stmt (L : Z -> Z) (divide : Z -> divr) (offset length : Z) : Prop :=
  let r := init divide L offset length in
  forall fuel, (Z.to_nat (r_aend r - r_abegin r) <= fuel)%nat ->
  let al := whole_blocks L (r_apbegin r) (Z.to_nat (r_apend r - r_apbegin r)) in
  aligned_parts L r fuel = Some al /\ Forall (whole_block L) al /\
  (if sub_nonempty (r_small r)
   then all_parts L r fuel = Some [r_small r] /\ al = []
   else all_parts L r fuel = Some (opt_part (r_preface r) ++ al ++ opt_part (r_postface r))).

(* aligned_enclose: [B abegin, B aend) encloses the range with less than one
   block of slack on each side *)
Definition enclose_stmt (B L : Z -> Z) (divide : Z -> divr) (offset length : Z) : Prop :=
  let r := init divide L offset length in
  B (r_abegin r) <= offset < B (r_abegin r) + L (r_abegin r) /\
  offset + length <= B (r_aend r) /\
  B (r_aend r) - L (r_apend r) < offset + length /\
  (0 < length -> B (r_aend r) - L (r_aend r - 1) < offset + length).

(* empty_range: no non-empty part; aligned_parts() is empty (for ANY fuel:
   this is what F19 violated); no classified member exists *)
Definition empty_stmt (L : Z -> Z) (divide : Z -> divr) (offset : Z) : Prop :=
  let r := init divide L offset 0 in
  (forall fuel, (Z.to_nat (r_aend r - r_abegin r) <= fuel)%nat ->
     all_parts L r fuel =
       Some (if d_rem (divide offset) =? 0 then []
             else [mkSub (r_abegin r) (d_rem (divide offset)) 0])) /\
  (forall fuel, aligned_parts L r fuel = Some []) /\
  sub_nonempty (r_small r) = false /\ sub_nonempty (r_preface r) = false /\
  sub_nonempty (r_postface r) = false.
