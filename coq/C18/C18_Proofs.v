(* C18_Proofs.v — invariants and proofs about the RangeLock model (C18_Model.v).
   Part 1: the ordered-set invariant (for EVERY interleaving of atomic steps), byte
   disjointness, retry-succeeds, unlock-erases, adjust-safe.
   Part 2 (C18_Waiters.v): the waiter invariants. *)
From Coq Require Import ZArith List Lia Bool Sorted Relations.
From PV Require Import Base.U64 C18.C18_Model.
Import ListNotations.
Local Open Scope Z_scope.

(* ------------------------------------------------------------------ basics ---- *)
Lemma MAX64_val : MAX64 = 18446744073709551615. Proof. reflexivity. Qed.

Definition u64 (x : Z) : Prop := 0 <= x <= MAX64.

Lemma r_end_ge o l : 0 <= l -> o <= r_end o l \/ r_end o l = MAX64.
Proof. intros Hl. unfold r_end, sat_add. destruct (Z.ltb_spec MAX64 (o + l)); lia. Qed.

Lemma r_end_ge' o l : u64 o -> 0 <= l -> o <= r_end o l.
Proof. intros [Ho1 Ho2] Hl. unfold r_end, sat_add. destruct (Z.ltb_spec MAX64 (o + l)); lia. Qed.

Lemma r_end_le_max o l : u64 o -> u64 l -> r_end o l <= MAX64.
Proof. intros [? ?] [? ?]. unfold r_end, sat_add. destruct (Z.ltb_spec MAX64 (o + l)); lia. Qed.

Lemma r_end_nosat o l : o + l <= MAX64 -> r_end o l = o + l.
Proof. intros H. unfold r_end, sat_add. destruct (Z.ltb_spec MAX64 (o + l)); lia. Qed.

Lemma r_end_le_true o l : 0 <= l -> r_end o l <= o + l.
Proof. intros H. unfold r_end, sat_add. destruct (Z.ltb_spec MAX64 (o + l)); lia. Qed.

(* well-formed entry: both fields are uint64_t values *)
Definition wf_e (e : entry) : Prop := u64 (e_off e) /\ u64 (e_len e).
(* the comparator order, pairwise: a.end() <= b.offset *)
Definition before (a b : entry) : Prop := e_end a <= e_off b.
Definition ordered (l : list entry) : Prop := StronglySorted before l.

Lemma wf_off_le_end e : wf_e e -> e_off e <= e_end e.
Proof. intros [H1 [H2 _]]. apply r_end_ge'; auto. Qed.

Lemma e_end_add_waiter e t : e_end (add_waiter e t) = e_end e. Proof. reflexivity. Qed.
Lemma e_end_clear_wait e : e_end (clear_wait e) = e_end e. Proof. reflexivity. Qed.

(* ------------------------------------------------------- lower_bound (list) ---- *)
Lemma lb_split_app o l : forall a b, lb_split o l = (a, b) -> l = a ++ b.
Proof.
  induction l as [|x tl IH]; intros a b H; cbn in H.
  - inversion H; reflexivity.
  - destruct (e_end x <=? o) eqn:E.
    + destruct (lb_split o tl) as [a' b'] eqn:E2. inversion H; subst. cbn. f_equal. apply IH; reflexivity.
    + inversion H; subst. reflexivity.
Qed.

Lemma lb_split_pre o l : forall a b, lb_split o l = (a, b) -> Forall (fun x => e_end x <= o) a.
Proof.
  induction l as [|x tl IH]; intros a b H; cbn in H.
  - inversion H; constructor.
  - destruct (e_end x <=? o) eqn:E.
    + destruct (lb_split o tl) as [a' b'] eqn:E2. inversion H; subst. constructor.
      * apply Z.leb_le; exact E.
      * eapply IH; reflexivity.
    + inversion H; subst. constructor.
Qed.

Lemma lb_split_post_head o l : forall a x b, lb_split o l = (a, x :: b) -> o < e_end x.
Proof.
  induction l as [|y tl IH]; intros a x b H; cbn in H.
  - inversion H.
  - destruct (e_end y <=? o) eqn:E.
    + destruct (lb_split o tl) as [a' b'] eqn:E2. inversion H; subst. eapply IH; reflexivity.
    + inversion H; subst. apply Z.leb_gt in E. exact E.
Qed.

(* StronglySorted toolkit *)
Lemma ordered_app_inv l1 l2 : ordered (l1 ++ l2) ->
  ordered l1 /\ ordered l2 /\ (forall a b, In a l1 -> In b l2 -> before a b).
Proof.
  induction l1 as [|x l1 IH]; cbn; intros H.
  - repeat split; auto. constructor. intros a b [].
  - inversion H as [|? ? Hs Hf]; subst. destruct (IH Hs) as (H1 & H2 & H3).
    rewrite Forall_app in Hf. destruct Hf as [Hf1 Hf2].
    repeat split; auto.
    + constructor; auto.
    + intros a b [<-|Ha] Hb.
      * rewrite Forall_forall in Hf2; auto.
      * auto.
Qed.

Lemma ordered_app l1 l2 : ordered l1 -> ordered l2 ->
  (forall a b, In a l1 -> In b l2 -> before a b) -> ordered (l1 ++ l2).
Proof.
  induction l1 as [|x l1 IH]; cbn; intros H1 H2 H3; auto.
  inversion H1 as [|? ? Hs Hf]; subst. constructor.
  - apply IH; auto.
  - rewrite Forall_app; split; auto. rewrite Forall_forall. intros b Hb. apply H3; auto.
Qed.

Lemma ordered_cons_inv x l : ordered (x :: l) -> ordered l /\ (forall b, In b l -> before x b).
Proof. intros H. inversion H as [|? ? Hs Hf]; subst. split; auto. rewrite Forall_forall in Hf; auto. Qed.

Lemma ordered_cons x l : ordered l -> (forall b, In b l -> before x b) -> ordered (x :: l).
Proof. intros H1 H2. constructor; auto. rewrite Forall_forall; auto. Qed.

(* replacing the middle element by one with the same position constraints *)
Lemma ordered_replace a x y b :
  ordered (a ++ x :: b) ->
  (forall p, In p a -> before p y) -> (forall n, In n b -> before y n) ->
  ordered (a ++ y :: b).
Proof.
  intros H Ha Hb. apply ordered_app_inv in H. destruct H as (H1 & H2 & H3).
  apply ordered_cons_inv in H2. destruct H2 as [H2 H4].
  apply ordered_app; auto.
  - apply ordered_cons; auto.
  - intros p q Hp [<-|Hq]; auto. apply H3; auto. right; auto.
Qed.

Lemma ordered_same_range a x y b :
  ordered (a ++ x :: b) -> e_off y = e_off x -> e_len y = e_len x -> ordered (a ++ y :: b).
Proof.
  intros H Ho Hl.
  assert (He : e_end y = e_end x) by (unfold e_end; rewrite Ho, Hl; reflexivity).
  pose proof (ordered_app_inv _ _ H) as (H1 & H2 & H3).
  apply ordered_cons_inv in H2. destruct H2 as [H2 H4].
  eapply ordered_replace; eauto.
  - intros p Hp. unfold before. rewrite Ho. apply H3; auto. left; auto.
  - intros n Hn. unfold before. rewrite He. apply H4; auto.
Qed.

Lemma ordered_remove a x b : ordered (a ++ x :: b) -> ordered (a ++ b).
Proof.
  intros H. apply ordered_app_inv in H. destruct H as (H1 & H2 & H3).
  apply ordered_cons_inv in H2. destruct H2 as [H2 _].
  apply ordered_app; auto. intros p q Hp Hq. apply H3; auto. right; auto.
Qed.

(* ends are monotone along an ordered well-formed list: this is what makes the comparator's
   "x < key" predicate a partition of the in-order sequence *)
Lemma ordered_end_mono l : ordered l -> Forall wf_e l ->
  forall a b l1 l2, l = l1 ++ a :: l2 -> In b l2 -> e_end a <= e_end b.
Proof.
  intros Ho Hw a b l1 l2 -> Hb.
  apply ordered_app_inv in Ho. destruct Ho as (_ & Ho & _).
  apply ordered_cons_inv in Ho. destruct Ho as [_ Ho].
  specialize (Ho b Hb). unfold before in Ho.
  assert (wf_e b). { rewrite Forall_forall in Hw. apply Hw. apply in_or_app. right; right; auto. }
  pose proof (wf_off_le_end b H). lia.
Qed.

(* on an ordered list the split is exact: everything after the lower bound is not < key *)
Lemma lb_split_post o l a b : ordered l -> Forall wf_e l -> lb_split o l = (a, b) ->
  Forall (fun x => o < e_end x) b.
Proof.
  intros Ho Hw H. destruct b as [|x b]; [constructor|].
  pose proof (lb_split_post_head _ _ _ _ _ H) as Hx.
  pose proof (lb_split_app _ _ _ _ H) as Hl.
  constructor; auto. rewrite Forall_forall. intros y Hy.
  pose proof (ordered_end_mono l Ho Hw x y a b Hl Hy). lia.
Qed.

(* ------------------------------------------------------------- invariant ---- *)
Definition ids_below (n : Z) (l : list entry) : Prop := Forall (fun e => e_id e < n) l.
Record inv (s : state) : Prop := mkInv {
  inv_ord : ordered (idx s);
  inv_wf  : Forall wf_e (idx s);
  inv_ids : ids_below (nid s) (idx s) /\ NoDup (map e_id (idx s))
}.

(* well-formed op: every numeric argument is a uint64_t value *)
Definition op_u64 (c : op) : Prop :=
  match c with
  | OTry _ _ o l | OUnlock _ o l | OAdjust _ _ o l => u64 o /\ u64 l
  | OUnlockH _ _ | OInterrupt _ _ => True
  end.
(* guard excluding the class of known finding F4: no requested range reaches past 2^64-1 *)
Definition op_nosat (c : op) : Prop :=
  match c with
  | OTry _ _ o l | OAdjust _ _ o l => o + l <= MAX64
  | _ => True
  end.
(* guard excluding the class of known finding F3: no empty range is requested *)
Definition op_nonempty (c : op) : Prop :=
  match c with
  | OTry _ _ o l | OAdjust _ _ o l => 0 < l
  | _ => True
  end.

Lemma find_id_split h l : forall a x b, find_id h l = Some (a, x, b) -> l = a ++ x :: b /\ e_id x = h.
Proof.
  induction l as [|y tl IH]; intros a x b H; cbn in H; [discriminate|].
  destruct (e_id y =? h) eqn:E.
  - inversion H; subst. split; auto. apply Z.eqb_eq; auto.
  - destruct (find_id h tl) as [[[a' y'] b']|] eqn:E2; [|discriminate].
    inversion H; subst. destruct (IH _ _ _ eq_refl) as [-> ?]. split; auto.
Qed.

Lemma find_id_none h l : find_id h l = None -> ~ In h (map e_id l).
Proof.
  induction l as [|y tl IH]; cbn; intros H; [tauto|].
  destruct (e_id y =? h) eqn:E; [discriminate|].
  destruct (find_id h tl) as [[[a' y'] b']|] eqn:E2; [discriminate|].
  intros [H1|H1]; [apply Z.eqb_neq in E; auto | apply IH; auto].
Qed.

Lemma Forall_app_inv {A} (P : A -> Prop) l1 l2 : Forall P (l1 ++ l2) -> Forall P l1 /\ Forall P l2.
Proof. apply Forall_app. Qed.

Lemma ids_below_mono n m l : n <= m -> ids_below n l -> ids_below m l.
Proof. intros H. unfold ids_below. apply Forall_impl. intros; lia. Qed.

Lemma NoDup_map_remove (l1 : list entry) x l2 : NoDup (map e_id (l1 ++ x :: l2)) -> NoDup (map e_id (l1 ++ l2)).
Proof. rewrite !map_app. cbn. apply NoDup_remove_1. Qed.

Lemma NoDup_map_replace (l1 : list entry) x y l2 : e_id y = e_id x ->
  NoDup (map e_id (l1 ++ x :: l2)) -> NoDup (map e_id (l1 ++ y :: l2)).
Proof. intros H. rewrite !map_app. cbn. rewrite H. auto. Qed.

(* ---------------------------------------------------------------- attempt ---- *)
Lemma last_pre_in (pre : list entry) x r : rev pre = x :: r -> In x pre.
Proof. intros H. apply in_rev. rewrite H. left; auto. Qed.

Lemma attempt_inv s t k o l s' evs : inv s -> u64 o -> u64 l ->
  attempt s t k o l = (s', evs) -> inv s'.
Proof.
  intros [Ho Hw [Hi Hn]] Uo Ul H. unfold attempt in H.
  destruct (lb_split o (idx s)) as [pre post] eqn:E.
  pose proof (lb_split_app _ _ _ _ E) as Hl.
  pose proof (lb_split_pre _ _ _ _ E) as Hpre.
  assert (Hins : forall (Hpost : forall y, In y post -> r_end o l <= e_off y),
     inv (mkSt (pre ++ mkE o l (nid s) [] :: post) (nid s + 1) (pend s) (ready s))).
  { intros Hpost. rewrite Hl in Ho, Hw, Hi, Hn.
    apply ordered_app_inv in Ho. destruct Ho as (Ho1 & Ho2 & Ho3).
    apply Forall_app in Hw. destruct Hw as [Hw1 Hw2].
    split; cbn.
    - apply ordered_app; auto.
      + apply ordered_cons; auto.
      + intros p q Hp [<-|Hq]; auto. unfold before; cbn.
        rewrite Forall_forall in Hpre. apply Hpre; auto.
    - apply Forall_app; split; auto. constructor; auto. split; auto.
    - split.
      + apply Forall_app in Hi. destruct Hi as [Hi1 Hi2]. apply Forall_app; split.
        * eapply ids_below_mono; [|exact Hi1]. lia.
        * constructor; [cbn; lia|]. eapply ids_below_mono; [|exact Hi2]. lia.
      + rewrite map_app in *. cbn. apply NoDup_Add with (a := nid s) (l := map e_id pre ++ map e_id post).
        * apply Add_app.
        * split; auto. intros Hin. rewrite <- map_app in Hin. apply in_map_iff in Hin.
          destruct Hin as (y & Hy1 & Hy2).
          unfold ids_below in Hi. rewrite Forall_forall in Hi. specialize (Hi y Hy2). lia. }
  destruct post as [|x post'].
  - destruct (dup_empty pre o l).
    + inversion H; subst. split; auto.
    + inversion H; subst. apply Hins. intros y [].
  - destruct (e_off x <? r_end o l) eqn:E2.
    + inversion H; subst. rewrite Hl in Ho, Hw, Hi, Hn. split; cbn.
      * eapply ordered_same_range; eauto.
      * apply Forall_app in Hw. destruct Hw as [Hw1 Hw2]. apply Forall_app; split; auto.
        inversion Hw2; subst. constructor; auto.
      * split.
        -- unfold ids_below in *. apply Forall_app in Hi. destruct Hi as [Hi1 Hi2]. apply Forall_app; split; auto.
           inversion Hi2; subst. constructor; auto.
        -- eapply NoDup_map_replace; [|exact Hn]. reflexivity.
    + destruct (dup_empty pre o l).
      * inversion H; subst. split; auto.
      * inversion H; subst. apply Hins. apply Z.ltb_ge in E2.
        intros y [<-|Hy]; auto.
        rewrite Hl in Ho, Hw. apply ordered_app_inv in Ho. destruct Ho as (_ & Ho2 & _).
        apply ordered_cons_inv in Ho2. destruct Ho2 as [_ Ho2]. specialize (Ho2 y Hy). unfold before in Ho2.
        apply Forall_app in Hw. destruct Hw as [_ Hw2]. inversion Hw2; subst.
        pose proof (wf_off_le_end x H2). lia.
Qed.

(* ----------------------------------------------------------------- unlock ---- *)
Lemma unlock_loop_incl o l post : forall keep wk, unlock_loop o l post = (keep, wk) ->
  forall y, In y keep -> In y post.
Proof.
  induction post as [|z tl IH2]; intros k' w' E b Hb; cbn in E.
  - inversion E; subst. destruct Hb.
  - destruct (e_off z <? r_end o l).
    + destruct (unlock_loop o l tl) as [k2 w2] eqn:E3.
      destruct (r_contains o l (e_off z) (e_len z)); inversion E; subst.
      * right. eapply IH2; eauto.
      * destruct Hb as [<-|Hb]; [left; auto | right; eapply IH2; eauto].
    + inversion E; subst. auto.
Qed.

Lemma unlock_loop_ordered o l post keep wk : unlock_loop o l post = (keep, wk) -> ordered post -> ordered keep.
Proof.
  revert keep wk. induction post as [|x tl IH]; intros keep wk H Ho; cbn in H.
  - inversion H; constructor.
  - destruct (e_off x <? r_end o l).
    + destruct (unlock_loop o l tl) as [k' w'] eqn:E.
      apply ordered_cons_inv in Ho. destruct Ho as [Ho1 Ho2].
      destruct (r_contains o l (e_off x) (e_len x)); inversion H; subst.
      * eapply IH; eauto.
      * apply ordered_cons; [eapply IH; eauto|].
        intros b Hb. apply Ho2. eapply unlock_loop_incl; eauto.
    + inversion H; subst. auto.
Qed.

Lemma NoDup_map_incl_sub (keep post : list entry) :
  (* keep is a subsequence of post *)
  forall o l wk, unlock_loop o l post = (keep, wk) -> NoDup (map e_id post) -> NoDup (map e_id keep).
Proof.
  revert keep. induction post as [|x tl IH]; intros keep o l wk H Hn; cbn in H.
  - inversion H; constructor.
  - destruct (e_off x <? r_end o l).
    + destruct (unlock_loop o l tl) as [k' w'] eqn:E.
      cbn in Hn. inversion Hn as [|? ? Hx Hn']; subst.
      destruct (r_contains o l (e_off x) (e_len x)); inversion H; subst.
      * eapply IH; eauto.
      * cbn. constructor; [|eapply IH; eauto].
        intros Hin. apply Hx. apply in_map_iff in Hin. destruct Hin as (y & Hy1 & Hy2).
        apply in_map_iff. exists y; split; auto. eapply unlock_loop_incl; eauto.
    + inversion H; subst. auto.
Qed.

Lemma NoDup_app_r {A} (l1 l2 : list A) : NoDup (l1 ++ l2) -> NoDup l2.
Proof. induction l1; cbn; auto. intros H. inversion H; auto. Qed.

Lemma NoDup_app_sub {A} (l1 l2 k : list A) : NoDup (l1 ++ l2) -> NoDup k -> (forall z, In z k -> In z l2) -> NoDup (l1 ++ k).
Proof.
  induction l1 as [|p l1 IH]; cbn; intros Hn Hk Hs; auto.
  inversion Hn as [|? ? Hp Hn']; subst. constructor; auto.
  intros Hin. apply Hp. apply in_app_or in Hin. apply in_or_app. destruct Hin; auto.
Qed.

Lemma unlock_range_inv s t o l s' evs : inv s -> unlock_range s t o l = (s', evs) -> inv s'.
Proof.
  intros [Ho Hw [Hi Hn]] H. unfold unlock_range in H.
  destruct (lb_split o (idx s)) as [pre post] eqn:E.
  destruct (unlock_loop o l post) as [keep wk] eqn:E2.
  inversion H; subst; clear H.
  pose proof (lb_split_app _ _ _ _ E) as Hl. rewrite Hl in Ho, Hw, Hi, Hn.
  pose proof (unlock_loop_incl _ _ _ _ _ E2) as Hsub.
  apply ordered_app_inv in Ho. destruct Ho as (Ho1 & Ho2 & Ho3).
  apply Forall_app in Hw. destruct Hw as [Hw1 Hw2].
  apply Forall_app in Hi. destruct Hi as [Hi1 Hi2].
  split; cbn.
  - apply ordered_app; auto. eapply unlock_loop_ordered; eauto.
  - apply Forall_app; split; auto. rewrite Forall_forall in *. auto.
  - split.
    + apply Forall_app; split; auto. unfold ids_below in *. rewrite Forall_forall in *. auto.
    + rewrite map_app in *. pose proof (NoDup_app_r _ _ Hn) as Hn2.
      pose proof (NoDup_map_incl_sub _ _ _ _ _ E2 Hn2) as Hk.
      eapply NoDup_app_sub; eauto.
      intros z Hin. apply in_map_iff in Hin. destruct Hin as (y & Hy1 & Hy2). apply in_map_iff. exists y; auto.
Qed.

Lemma unlock_handle_inv s t h s' evs : inv s -> unlock_handle s t h = (s', evs) -> inv s'.
Proof.
  intros [Ho Hw [Hi Hn]] H. unfold unlock_handle in H.
  destruct (find_id h (idx s)) as [[[a x] b]|] eqn:E.
  - inversion H; subst; clear H. destruct (find_id_split _ _ _ _ _ E) as [Hl _].
    rewrite Hl in Ho, Hw, Hi, Hn. split; cbn.
    + eapply ordered_remove; eauto.
    + apply Forall_app in Hw. destruct Hw as [Hw1 Hw2]. inversion Hw2; subst. apply Forall_app; split; auto.
    + split.
      * unfold ids_below in *. apply Forall_app in Hi. destruct Hi as [Hi1 Hi2]. inversion Hi2; subst. apply Forall_app; split; auto.
      * eapply NoDup_map_remove; eauto.
  - inversion H; subst. split; auto.
Qed.

(* ----------------------------------------------------------------- adjust ---- *)
Lemma prev_end_bound a : forall p, In p a -> ordered a -> Forall wf_e a -> e_end p <= prev_end a.
Proof.
  intros p Hp Ho Hw. unfold prev_end. destruct (rev a) as [|q r] eqn:E.
  - apply in_rev in Hp. rewrite E in Hp. destruct Hp.
  - assert (Ha : a = rev r ++ [q]). { rewrite <- (rev_involutive a), E. reflexivity. }
    rewrite Ha in Hp. apply in_app_or in Hp. destruct Hp as [Hp|[<-|[]]]; [|lia].
    apply in_split in Hp. destruct Hp as (l1 & l2 & Hp).
    eapply (ordered_end_mono a Ho Hw p q l1 (l2 ++ [q])).
    + rewrite Ha, Hp. rewrite <- app_assoc. reflexivity.
    + apply in_or_app. right; left; auto.
Qed.

Lemma adjust_range_gen_inv nf s t h o l s' evs : inv s -> u64 o -> u64 l ->
  adjust_range_gen nf s t h o l = (s', evs) -> inv s'.
Proof.
  intros Hinv Uo Ul H. pose proof Hinv as [Ho Hw [Hi Hn]]. unfold adjust_range_gen in H.
  destruct h as [h|]; [|inversion H; subst; auto].
  destruct (find_id h (idx s)) as [[[a x] b]|] eqn:E; [|inversion H; subst; auto].
  destruct (find_id_split _ _ _ _ _ E) as [Hl _].
  match type of H with (if ?c then _ else _) = _ => destruct c eqn:Ec end; [inversion H; subst; auto|].
  apply orb_false_iff in Ec. destruct Ec as [Ec1 Ec2].
  apply andb_false_iff in Ec1. apply andb_false_iff in Ec2.
  rewrite Hl in Ho, Hw, Hi, Hn.
  pose proof (ordered_app_inv _ _ Ho) as (Ho1 & Ho2 & Ho3).
  pose proof (ordered_cons_inv _ _ Ho2) as [Ho4 Ho5].
  pose proof (proj1 (Forall_app _ _ _) Hw) as [Hw1 Hw2].
  inversion Hw2 as [|? ? Hwx Hwb]; subst.
  assert (Hr1 : o <= r_end o l) by (apply r_end_ge'; destruct Ul; auto).
  assert (Hxoe := wf_off_le_end x Hwx).
  assert (Hnew : forall y, e_off y = o -> e_len y = l -> e_id y = e_id x ->
            inv (mkSt (a ++ y :: b) (nid s) (pend s) (if nf then wake_all (ready s) x else ready s))).
  { intros y Hyo Hyl Hyi. assert (Hye : e_end y = r_end o l) by (unfold e_end; rewrite Hyo, Hyl; auto).
    split; cbn.
    - eapply ordered_replace; eauto.
      + intros p Hp. unfold before. rewrite Hyo.
        pose proof (Ho3 p x Hp (or_introl eq_refl)) as Hpx. unfold before in Hpx.
        pose proof (prev_end_bound a p Hp Ho1 Hw1) as Hpe.
        destruct Ec1 as [Ec1|Ec1]; apply Z.ltb_ge in Ec1; lia.
      + intros n Hn'. unfold before. rewrite Hye.
        pose proof (Ho5 n Hn') as Hxn. unfold before in Hxn.
        destruct Ec2 as [Ec2|Ec2]; apply Z.ltb_ge in Ec2; [lia|].
        destruct b as [|n0 b']; [destruct Hn'|]. cbn in Ec2.
        destruct Hn' as [<-|Hn']; [lia|].
        apply ordered_cons_inv in Ho4. destruct Ho4 as [_ Ho4]. specialize (Ho4 n Hn'). unfold before in Ho4.
        inversion Hwb as [|? ? Hwn0 ?]; subst. pose proof (wf_off_le_end n0 Hwn0). lia.
    - apply Forall_app; split; auto. constructor; auto. split; [rewrite Hyo|rewrite Hyl]; auto.
    - split.
      + unfold ids_below in *. apply Forall_app in Hi. destruct Hi as [Hi1 Hi2]. inversion Hi2; subst.
        apply Forall_app; split; auto. constructor; auto. rewrite Hyi; auto.
      + eapply NoDup_map_replace; eauto. }
  destruct nf; inversion H; subst; apply Hnew; reflexivity.
Qed.

(* -------------------------------------------------------------- interrupt ---- *)
Lemma ordered_map_same (f : entry -> entry) l :
  (forall x, e_off (f x) = e_off x /\ e_len (f x) = e_len x) -> ordered l -> ordered (map f l).
Proof.
  intros Hf H. induction H as [|x l Hs IH Hfa]; cbn; constructor; auto.
  rewrite Forall_forall in *. intros y Hy. apply in_map_iff in Hy. destruct Hy as (z & <- & Hz).
  unfold before, e_end. destruct (Hf x) as [-> ->]. destruct (Hf z) as [-> _]. apply Hfa; auto.
Qed.

Lemma unpark1_same u x : e_off (unpark1 u x) = e_off x /\ e_len (unpark1 u x) = e_len x.
Proof. split; reflexivity. Qed.

Lemma unpark_ids u l : map e_id (unpark u l) = map e_id l.
Proof. unfold unpark. rewrite map_map. apply map_ext. reflexivity. Qed.

Lemma interrupt_inv s t u s' evs : inv s -> interrupt s t u = (s', evs) -> inv s'.
Proof.
  intros [Ho Hw [Hi Hn]] H. unfold interrupt in H. destruct (is_parked s u); inversion H; subst; [|split; auto].
  split; cbn.
  - apply ordered_map_same; auto using unpark1_same.
  - unfold unpark. rewrite Forall_forall in *. intros y Hy. apply in_map_iff in Hy. destruct Hy as (z & <- & Hz).
    specialize (Hw z Hz). exact Hw.
  - split.
    + unfold ids_below, unpark in *. rewrite Forall_forall in *. intros y Hy. apply in_map_iff in Hy. destruct Hy as (z & <- & Hz).
      specialize (Hi z Hz). exact Hi.
    + rewrite unpark_ids. auto.
Qed.

(* ------------------------------------------------------ steps, reachability ---- *)
Lemma exec_op_inv s c s' evs : inv s -> op_u64 c -> exec_op s c = (s', evs) -> inv s'.
Proof.
  intros Hi Hc H. unfold exec_op in H. destruct (is_pending s (op_tid c)); [inversion H; subst; auto|].
  destruct c as [t k o l|t o l|t h|t h o l|t u]; cbn in Hc, H.
  - destruct Hc. apply (attempt_inv s t k o l s' evs); auto.
  - eapply unlock_range_inv; eauto.
  - eapply unlock_handle_inv; eauto.
  - destruct Hc. apply (adjust_range_gen_inv true s t h o l s' evs); auto.
  - eapply interrupt_inv; eauto.
Qed.

(* the requests of parked threads are uint64 too (they come from ops) *)
Definition pend_u64 (s : state) : Prop := Forall (fun tp => u64 (p_off (snd tp)) /\ u64 (p_len (snd tp))) (pend s).

Definition set_ready (s : state) (r : list Z) : state := mkSt (idx s) (nid s) (pend s) r.

(* One atomic step of the system, by any thread:
   - some thread calls a method (and runs it until it returns or parks), or
   - some notified thread (ANY element of the ready set, not only the first) resumes. *)
Inductive step (G : op -> Prop) : state -> state -> Prop :=
| step_op s c s' evs : G c -> exec_op s c = (s', evs) -> step G s s'
| step_wake s t r1 r2 s' evs : ready s = r1 ++ t :: r2 ->
    wake (set_ready s (r1 ++ r2)) t = (s', evs) -> step G s s'.

Inductive reachable (G : op -> Prop) : state -> Prop :=
| reach_init : reachable G init_state
| reach_step s s' : reachable G s -> step G s s' -> reachable G s'.

Lemma lookup_pend_in t l p : lookup_pend t l = Some p -> In (t, p) l.
Proof.
  induction l as [|[u q] tl IH]; cbn; [discriminate|].
  destruct (u =? t) eqn:E; intros H.
  - inversion H; subst. apply Z.eqb_eq in E; subst. left; auto.
  - right; auto.
Qed.

Lemma remove_pend_incl t l : forall x, In x (remove_pend t l) -> In x l.
Proof.
  induction l as [|[u q] tl IH]; cbn; auto.
  destruct (u =? t); intros x Hx; auto. destruct Hx; auto.
Qed.

Lemma attempt_pend_u64 s t k o l s' evs : pend_u64 s -> u64 o -> u64 l -> attempt s t k o l = (s', evs) -> pend_u64 s'.
Proof.
  intros Hp Uo Ul H. unfold attempt in H. destruct (lb_split o (idx s)) as [pre post].
  assert (Hpark : pend_u64 (mkSt (idx s) (nid s) (pend s ++ [(t, mkP k o l 0 0)]) (ready s))).
  { unfold pend_u64 in *; cbn. apply Forall_app; split; auto. }
  unfold pend_u64 in *.
  destruct post as [|x post'].
  - destruct (dup_empty pre o l); inversion H; subst; auto.
  - destruct (e_off x <? r_end o l).
    + inversion H; subst; cbn. apply Forall_app; split; auto.
    + destruct (dup_empty pre o l); inversion H; subst; auto.
Qed.

Lemma exec_op_pend_u64 s c s' evs : pend_u64 s -> op_u64 c -> exec_op s c = (s', evs) -> pend_u64 s'.
Proof.
  intros Hp Hc H. unfold exec_op in H. destruct (is_pending s (op_tid c)); [inversion H; subst; auto|].
  destruct c as [t k o l|t o l|t h|t h o l|t u]; cbn in Hc, H.
  - destruct Hc. apply (attempt_pend_u64 s t k o l s' evs); auto.
  - unfold unlock_range in H. destruct (lb_split o (idx s)). destruct (unlock_loop o l l1). inversion H; subst; auto.
  - unfold unlock_handle in H. destruct (find_id h (idx s)) as [[[a x] b]|]; inversion H; subst; auto.
  - unfold adjust_range, adjust_range_gen in H. destruct h as [h|]; [|inversion H; subst; auto].
    destruct (find_id h (idx s)) as [[[a x] b]|]; [|inversion H; subst; auto].
    match type of H with (if ?c then _ else _) = _ => destruct c end; inversion H; subst; auto.
  - unfold interrupt in H. destruct (is_parked s u); inversion H; subst; auto.
Qed.

Lemma wake_inv s t s' evs : inv s -> pend_u64 s -> wake s t = (s', evs) -> inv s' /\ pend_u64 s'.
Proof.
  intros Hi Hp H. unfold wake in H. destruct (lookup_pend t (pend s)) as [p|] eqn:E; [|inversion H; subst; auto].
  assert (Hi' : inv (mkSt (idx s) (nid s) (remove_pend t (pend s)) (ready s))) by (destruct Hi; split; auto).
  assert (Hp' : pend_u64 (mkSt (idx s) (nid s) (remove_pend t (pend s)) (ready s))).
  { unfold pend_u64 in *; cbn. rewrite Forall_forall in *. intros x Hx. apply Hp. eapply remove_pend_incl; eauto. }
  destruct (p_kind p); try (inversion H; subst; auto).
  apply lookup_pend_in in E. unfold pend_u64 in Hp. rewrite Forall_forall in Hp. specialize (Hp _ E). cbn in Hp. destruct Hp.
  split; [eapply attempt_inv with (o := p_off p) (l := p_len p) | eapply attempt_pend_u64 with (o := p_off p) (l := p_len p)]; eauto.
Qed.

Definition G_u64 (c : op) : Prop := op_u64 c.

Lemma reachable_inv (G : op -> Prop) s : (forall c, G c -> op_u64 c) -> reachable G s -> inv s /\ pend_u64 s.
Proof.
  intros HG H. induction H as [|s s' Hr [IH1 IH2] Hs].
  - split; [split; cbn; try constructor; try constructor | constructor].
  - destruct Hs as [s c s' evs Hc He | s t r1 r2 s' evs Hr' Hw].
    + split; [eapply exec_op_inv | eapply exec_op_pend_u64]; eauto.
    + eapply wake_inv; [| |exact Hw]; destruct IH1; [split|]; auto.
Qed.


(* ------------------------------------------- predicates on requested ranges ---- *)
(* If every range ever requested satisfies P, every held range and every parked request does. *)
Section RangePred.
  Variable P : Z -> Z -> Prop.
  Definition op_P (c : op) : Prop :=
    match c with OTry _ _ o l | OAdjust _ _ o l => P o l | _ => True end.
  Definition all_P (s : state) : Prop :=
    Forall (fun e => P (e_off e) (e_len e)) (idx s) /\
    Forall (fun tp => P (p_off (snd tp)) (p_len (snd tp))) (pend s).

  Lemma attempt_P s t k o l s' evs : all_P s -> P o l -> attempt s t k o l = (s', evs) -> all_P s'.
  Proof.
    intros [H1 H2] HP H. unfold attempt in H. destruct (lb_split o (idx s)) as [pre post] eqn:E.
    pose proof (lb_split_app _ _ _ _ E) as Hl. rewrite Hl in H1. apply Forall_app in H1. destruct H1 as [H1a H1b].
    assert (Hins : all_P (mkSt (pre ++ mkE o l (nid s) [] :: post) (nid s + 1) (pend s) (ready s))).
    { split; cbn; auto. apply Forall_app; split; auto. }
    assert (Hsame : all_P s). { split; auto. rewrite Hl. apply Forall_app; split; auto. }
    destruct post as [|x post'].
    - destruct (dup_empty pre o l); inversion H; subst; auto.
    - destruct (e_off x <? r_end o l).
      + inversion H; subst. inversion H1b; subst. split; cbn.
        * apply Forall_app; split; auto.
        * apply Forall_app; split; auto.
      + destruct (dup_empty pre o l); inversion H; subst; auto.
  Qed.

  Lemma exec_op_P s c s' evs : all_P s -> op_P c -> exec_op s c = (s', evs) -> all_P s'.
  Proof.
    intros HP Hc H. unfold exec_op in H. destruct (is_pending s (op_tid c)); [inversion H; subst; auto|].
    destruct c as [t k o l|t o l|t h|t h o l|t u]; cbn in Hc, H.
    - eapply attempt_P; eauto.
    - destruct HP as [H1 H2]. unfold unlock_range in H.
      destruct (lb_split o (idx s)) as [pre post] eqn:E. destruct (unlock_loop o l post) as [keep wk] eqn:E2.
      inversion H; subst; clear H. split; cbn; auto.
      pose proof (lb_split_app _ _ _ _ E) as Hl. rewrite Hl in H1. apply Forall_app in H1. destruct H1 as [H1a H1b].
      apply Forall_app; split; auto. rewrite Forall_forall in *. intros y Hy. apply H1b. eapply unlock_loop_incl; eauto.
    - destruct HP as [H1 H2]. unfold unlock_handle in H.
      destruct (find_id h (idx s)) as [[[a x] b]|] eqn:E; inversion H; subst; clear H; [|split; auto].
      destruct (find_id_split _ _ _ _ _ E) as [Hl _]. rewrite Hl in H1. apply Forall_app in H1. destruct H1 as [H1a H1b].
      inversion H1b; subst. split; cbn; auto. apply Forall_app; split; auto.
    - destruct HP as [H1 H2]. unfold adjust_range, adjust_range_gen in H. destruct h as [h|]; [|inversion H; subst; split; auto].
      destruct (find_id h (idx s)) as [[[a x] b]|] eqn:E; [|inversion H; subst; split; auto].
      destruct (find_id_split _ _ _ _ _ E) as [Hl _].
      match type of H with (if ?c then _ else _) = _ => destruct c end; inversion H; subst; clear H; [split; auto|].
      rewrite Hl in H1. apply Forall_app in H1. destruct H1 as [H1a H1b]. inversion H1b; subst.
      split; cbn; auto. apply Forall_app; split; auto.
    - destruct HP as [H1 H2]. unfold interrupt in H. destruct (is_parked s u); inversion H; subst; [|split; auto].
      split; cbn; auto. unfold unpark. rewrite Forall_forall in *. intros y Hy. apply in_map_iff in Hy.
      destruct Hy as (z & <- & Hz). apply (H1 z Hz).
  Qed.

  Lemma wake_P s t s' evs : all_P s -> wake s t = (s', evs) -> all_P s'.
  Proof.
    intros [H1 H2] H. unfold wake in H. destruct (lookup_pend t (pend s)) as [p|] eqn:E; [|inversion H; subst; split; auto].
    assert (HP' : all_P (mkSt (idx s) (nid s) (remove_pend t (pend s)) (ready s))).
    { split; cbn; auto. rewrite Forall_forall in *. intros x Hx. apply H2. eapply remove_pend_incl; eauto. }
    destruct (p_kind p); try (inversion H; subst; auto).
    apply lookup_pend_in in E. rewrite Forall_forall in H2. specialize (H2 _ E). cbn in H2.
    eapply attempt_P; eauto.
  Qed.

  Lemma reachable_P (G : op -> Prop) s : (forall c, G c -> op_P c) -> reachable G s -> all_P s.
  Proof.
    intros HG H. induction H as [|s s' Hr IH Hs].
    - split; constructor.
    - destruct Hs as [s c s' evs Hc He | s t r1 r2 s' evs Hr' Hw].
      + eapply exec_op_P; eauto.
      + eapply wake_P; [|exact Hw]. destruct IH; split; auto.
  Qed.
End RangePred.

(* ----------------------------------------------------------- byte disjointness ---- *)
(* byte b belongs to the range held by e: the TRUE (unsaturated) range [offset, offset+length) *)
Definition byte_in (b : Z) (e : entry) : Prop := e_off e <= b < e_off e + e_len e.
Definition disjoint_held (l : list entry) : Prop :=
  forall i j a b x, i <> j -> nth_error l i = Some a -> nth_error l j = Some b ->
                    byte_in x a -> byte_in x b -> False.
Definition nosat (o l : Z) : Prop := o + l <= MAX64.

Lemma ordered_nth l : ordered l -> forall i j a b, (i < j)%nat ->
  nth_error l i = Some a -> nth_error l j = Some b -> before a b.
Proof.
  induction l as [|x l IH]; intros Ho i j a b Hij Ha Hb.
  - destruct i; discriminate.
  - apply ordered_cons_inv in Ho. destruct Ho as [Ho1 Ho2].
    destruct j as [|j]; [lia|]. cbn in Hb. destruct i as [|i]; cbn in Ha.
    + inversion Ha; subst. apply Ho2. eapply nth_error_In; eauto.
    + apply (IH Ho1 i j a b); auto. lia.
Qed.

Lemma ordered_nosat_disjoint l : ordered l -> Forall (fun e => nosat (e_off e) (e_len e)) l -> disjoint_held l.
Proof.
  intros Ho Hn i j a b x Hij Ha Hb [Ha1 Ha2] [Hb1 Hb2].
  rewrite Forall_forall in Hn.
  pose proof (Hn a (nth_error_In _ _ Ha)) as Hna. pose proof (Hn b (nth_error_In _ _ Hb)) as Hnb.
  unfold nosat in *.
  destruct (Nat.lt_ge_cases i j) as [Hlt|Hge].
  - pose proof (ordered_nth l Ho i j a b Hlt Ha Hb) as H. unfold before, e_end in H. rewrite r_end_nosat in H; lia.
  - assert (Hlt : (j < i)%nat) by lia.
    pose proof (ordered_nth l Ho j i b a Hlt Hb Ha) as H. unfold before, e_end in H. rewrite r_end_nosat in H; lia.
Qed.

Definition G_safe (c : op) : Prop := op_u64 c /\ op_P nosat c.

(* rl_disjoint: in EVERY reachable state of EVERY interleaving of method calls and wake-ups, made of
   requests that do not reach past 2^64-1, the held ranges are pairwise disjoint as byte sets and
   m_index is ordered by the comparator (so std::set's ordering requirement is met). *)
Lemma rl_disjoint_proof s : reachable G_safe s -> disjoint_held (idx s) /\ ordered (idx s).
Proof.
  intros H.
  destruct (reachable_inv G_safe s (fun c Hc => proj1 Hc) H) as [[Ho _ _] _].
  destruct (reachable_P nosat G_safe s (fun c Hc => proj2 Hc) H) as [Hn _].
  split; auto. apply ordered_nosat_disjoint; auto.
Qed.

(* the ordering half needs no guard at all: with saturating ends the set stays ordered for
   every sequence of uint64 arguments (zero lengths and saturating ranges included) *)
Lemma rl_ordered_proof s : reachable op_u64 s -> ordered (idx s) /\ NoDup (map e_id (idx s)).
Proof.
  intros H. destruct (reachable_inv op_u64 s (fun c Hc => Hc) H) as [[Ho _ [_ Hn]] _]. auto.
Qed.

(* ---- scripted runs (what the correspondence check executes) are runs of [step] ------ *)
Lemma set_ready_eta s : set_ready s (ready s) = s. Proof. destruct s; reflexivity. Qed.
Lemma set_ready_twice s r r' : set_ready (set_ready s r) r' = set_ready s r'. Proof. reflexivity. Qed.

Lemma attempt_ready_frame s t k o l r :
  attempt (set_ready s r) t k o l = (set_ready (fst (attempt s t k o l)) r, snd (attempt s t k o l)).
Proof.
  unfold attempt, set_ready; cbn. destruct (lb_split o (idx s)) as [pre post].
  destruct post as [|x post'].
  - destruct (dup_empty pre o l); reflexivity.
  - destruct (e_off x <? r_end o l); [reflexivity|]. destruct (dup_empty pre o l); reflexivity.
Qed.

Lemma wake_ready_frame s t r :
  wake (set_ready s r) t = (set_ready (fst (wake s t)) r, snd (wake s t)).
Proof.
  unfold wake; cbn. destruct (lookup_pend t (pend s)) as [p|]; [|reflexivity].
  destruct (p_kind p); try reflexivity.
  change (mkSt (idx s) (nid s) (remove_pend t (pend s)) r) with (set_ready (mkSt (idx s) (nid s) (remove_pend t (pend s)) (ready s)) r).
  apply attempt_ready_frame.
Qed.

Lemma attempt_ready s t k o l : ready (fst (attempt s t k o l)) = ready s.
Proof.
  unfold attempt. destruct (lb_split o (idx s)) as [pre post].
  destruct post as [|x post'].
  - destruct (dup_empty pre o l); reflexivity.
  - destruct (e_off x <? r_end o l); [reflexivity|]. destruct (dup_empty pre o l); reflexivity.
Qed.

Lemma wake_ready s t : ready (fst (wake s t)) = ready s.
Proof.
  unfold wake. destruct (lookup_pend t (pend s)) as [p|]; [|reflexivity].
  destruct (p_kind p); try reflexivity. rewrite attempt_ready. reflexivity.
Qed.

Lemma drain_list_reachable G rs : forall s s' evs, ready s = [] -> reachable G (set_ready s rs) ->
  drain_list rs s = (s', evs) -> reachable G s' /\ ready s' = [].
Proof.
  induction rs as [|t rs IH]; intros s s' evs Hr0 Hr H; cbn in H.
  - inversion H; subst. rewrite <- Hr0 in Hr. rewrite set_ready_eta in Hr. auto.
  - destruct (wake s t) as [s1 e1] eqn:E1. destruct (drain_list rs s1) as [s2 e2] eqn:E2.
    inversion H; subst; clear H.
    apply (IH s1 s' e2); auto.
    + pose proof (wake_ready s t) as Hw. rewrite E1 in Hw. cbn in Hw. congruence.
    + eapply reach_step; [exact Hr|].
      eapply step_wake with (t := t) (r1 := []) (r2 := rs); [reflexivity|].
      cbn [app]. rewrite set_ready_twice. rewrite wake_ready_frame. rewrite E1. reflexivity.
Qed.

Lemma run_op_reachable (G : op -> Prop) s c s' evs : reachable G s -> ready s = [] -> G c ->
  run_op s c = (s', evs) -> reachable G s' /\ ready s' = [].
Proof.
  intros Hr Hr0 Hc H. unfold run_op in H.
  destruct (exec_op s c) as [s1 e1] eqn:E1. destruct (drain s1) as [s2 e2] eqn:E2. inversion H; subst; clear H.
  unfold drain in E2. eapply drain_list_reachable; [| |exact E2]; [reflexivity|].
  change (mkSt (idx s1) (nid s1) (pend s1) []) with (set_ready s1 []). rewrite set_ready_twice, set_ready_eta.
  eapply reach_step; eauto. eapply step_op; eauto.
Qed.

Lemma run_ops_reachable (G : op -> Prop) cs : forall s, reachable G s -> ready s = [] -> Forall G cs ->
  reachable G (fst (run_ops s cs)) /\ ready (fst (run_ops s cs)) = [].
Proof.
  induction cs as [|c cs IH]; intros s Hr Hr0 HG; cbn; auto.
  inversion HG; subst.
  destruct (run_op s c) as [s1 e1] eqn:E1.
  destruct (run_op_reachable G s c s1 e1 Hr Hr0 H1 E1) as [Hr1 Hr10].
  specialize (IH s1 Hr1 Hr10 H2). destruct (run_ops s1 cs) as [s2 r]. exact IH.
Qed.

Lemma rl_disjoint_ops_proof cs : Forall G_safe cs ->
  disjoint_held (idx (fst (run_ops init_state cs))) /\ ordered (idx (fst (run_ops init_state cs))).
Proof.
  intros H. apply rl_disjoint_proof. apply run_ops_reachable; auto. constructor.
Qed.

(* ------------------------------------------------------------- retry succeeds ---- *)
Definition nonempty (o l : Z) : Prop := 0 < l.

(* a try_lock (any of the three entry points) issued when no held range shares a byte with the
   request inserts it.  Guards: F4 (no saturating range), F3 (no empty range). *)
Lemma rl_retry_succeeds_proof s t k o l :
  inv s ->
  Forall (fun e => nosat (e_off e) (e_len e)) (idx s) -> Forall (fun e => nonempty (e_off e) (e_len e)) (idx s) ->
  u64 o -> u64 l -> nosat o l -> nonempty o l ->
  (forall e x, In e (idx s) -> byte_in x e -> o <= x < o + l -> False) ->
  exists pre post, idx s = pre ++ post /\
    attempt s t k o l = (mkSt (pre ++ mkE o l (nid s) [] :: post) (nid s + 1) (pend s) (ready s), [EvAcq t k (nid s)]).
Proof.
  intros [Ho Hw _] Hns Hne Uo Ul Nsat Nemp Hfree. unfold nosat, nonempty in *.
  unfold attempt. destruct (lb_split o (idx s)) as [pre post] eqn:E.
  pose proof (lb_split_app _ _ _ _ E) as Hl.
  exists pre, post. split; auto.
  assert (Hre : r_end o l = o + l) by (apply r_end_nosat; auto).
  assert (Hd : dup_empty pre o l = false).
  { unfold dup_empty. rewrite Hre. destruct (o + l =? o) eqn:E2; auto. apply Z.eqb_eq in E2. lia. }
  rewrite Hd. destruct post as [|x post']; auto.
  destruct (e_off x <? r_end o l) eqn:E2; auto. exfalso.
  apply Z.ltb_lt in E2. rewrite Hre in E2.
  pose proof (lb_split_post_head _ _ _ _ _ E) as Hx.
  assert (Hin : In x (idx s)) by (rewrite Hl; apply in_or_app; right; left; auto).
  rewrite Forall_forall in Hns, Hne. specialize (Hns x Hin). specialize (Hne x Hin). cbn in Hns, Hne.
  unfold e_end in Hx. rewrite r_end_nosat in Hx by auto.
  apply (Hfree x (Z.max o (e_off x)) Hin); unfold byte_in; lia.
Qed.

(* ------------------------------------------------------------- unlock erases ---- *)
Lemma unlock_loop_keep o l post : ordered post -> Forall wf_e post ->
  forall keep wk, unlock_loop o l post = (keep, wk) ->
  forall y, In y keep -> r_contains o l (e_off y) (e_len y) = false \/ r_end o l <= e_off y.
Proof.
  induction post as [|x tl IH]; intros Ho Hw keep wk H y Hy; cbn in H.
  - inversion H; subst. destruct Hy.
  - apply ordered_cons_inv in Ho. destruct Ho as [Ho1 Ho2]. inversion Hw as [|? ? Hwx Hwt]; subst.
    destruct (e_off x <? r_end o l) eqn:E.
    + destruct (unlock_loop o l tl) as [k' w'] eqn:E2.
      destruct (r_contains o l (e_off x) (e_len x)) eqn:E3; inversion H; subst.
      * eapply IH; eauto.
      * destruct Hy as [<-|Hy]; auto. eapply IH; eauto.
    + inversion H; subst. apply Z.ltb_ge in E. right.
      destruct Hy as [<-|Hy]; auto.
      specialize (Ho2 y Hy). unfold before in Ho2. pose proof (wf_off_le_end x Hwx). lia.
Qed.

(* unlock(offset,length) leaves no held range that lies inside [offset, offset+length).
   Guards: F4 (no saturating range) and F3 (no EMPTY held range: an empty range at either end
   of the unlocked interval is not found by lower_bound / the loop condition). *)
Lemma rl_unlock_erases_proof s t o l s' evs :
  inv s ->
  Forall (fun e => nosat (e_off e) (e_len e)) (idx s) -> Forall (fun e => nonempty (e_off e) (e_len e)) (idx s) ->
  u64 o -> u64 l -> nosat o l ->
  unlock_range s t o l = (s', evs) ->
  forall e, In e (idx s') -> ~ (o <= e_off e /\ e_off e + e_len e <= o + l).
Proof.
  intros [Ho Hw _] Hns Hne Uo Ul Nsat H e He [Hc1 Hc2]. unfold nosat, nonempty in *.
  unfold unlock_range in H. destruct (lb_split o (idx s)) as [pre post] eqn:E.
  destruct (unlock_loop o l post) as [keep wk] eqn:E2. inversion H; subst; clear H. cbn in He.
  pose proof (lb_split_app _ _ _ _ E) as Hl. pose proof (lb_split_pre _ _ _ _ E) as Hpre.
  rewrite Hl in Ho, Hw, Hns, Hne.
  apply ordered_app_inv in Ho. destruct Ho as (_ & Ho2 & _).
  apply Forall_app in Hw. destruct Hw as [_ Hw2].
  rewrite Forall_forall in Hns, Hne, Hpre.
  apply in_app_or in He. destruct He as [He|He].
  - specialize (Hpre e He). cbn in Hpre. assert (Hin : In e (pre ++ post)) by (apply in_or_app; auto).
    specialize (Hns e Hin). specialize (Hne e Hin). cbn in *. unfold e_end in Hpre. rewrite r_end_nosat in Hpre by auto. lia.
  - assert (Hin : In e (pre ++ post)) by (apply in_or_app; right; eapply unlock_loop_incl; eauto).
    specialize (Hns e Hin). specialize (Hne e Hin). cbn in *.
    destruct (unlock_loop_keep o l post Ho2 Hw2 keep wk E2 e He) as [Hk|Hk].
    + unfold r_contains in Hk. rewrite !r_end_nosat in Hk by auto.
      apply andb_false_iff in Hk. destruct Hk as [Hk|Hk]; [apply Z.leb_gt in Hk | apply Z.leb_gt in Hk]; lia.
    + rewrite r_end_nosat in Hk by auto. lia.
Qed.

(* every node that unlock(offset,length) removes hands all its waiters to the ready set *)
Lemma unlock_loop_wakes o l post : forall keep wk, unlock_loop o l post = (keep, wk) ->
  forall y, In y post -> In y keep \/ (forall w, In w (e_wait y) -> In w wk).
Proof.
  induction post as [|x tl IH]; intros keep wk H y Hy; cbn in H; [destruct Hy|].
  destruct (e_off x <? r_end o l).
  - destruct (unlock_loop o l tl) as [k' w'] eqn:E2.
    destruct (r_contains o l (e_off x) (e_len x)); inversion H; subst; clear H.
    + destruct Hy as [<-|Hy].
      * right. intros w Hw. apply in_or_app; auto.
      * destruct (IH _ _ eq_refl y Hy) as [H|H]; auto. right. intros w Hw. apply in_or_app; auto.
    + destruct Hy as [<-|Hy]; [left; left; auto|].
      destruct (IH _ _ eq_refl y Hy) as [H|H]; auto. left; right; auto.
  - inversion H; subst. left; auto.
Qed.

Lemma unlock_range_wakes s t o l s' evs : unlock_range s t o l = (s', evs) ->
  forall y, In y (idx s) -> In y (idx s') \/ (forall w, In w (e_wait y) -> In w (ready s')).
Proof.
  intros H y Hy. unfold unlock_range in H. destruct (lb_split o (idx s)) as [pre post] eqn:E.
  destruct (unlock_loop o l post) as [keep wk] eqn:E2. inversion H; subst; clear H. cbn.
  rewrite (lb_split_app _ _ _ _ E) in Hy. apply in_app_or in Hy. destruct Hy as [Hy|Hy].
  - left. apply in_or_app; auto.
  - destruct (unlock_loop_wakes _ _ _ _ _ E2 y Hy) as [H|H].
    + left. apply in_or_app; auto.
    + right. intros w Hw. apply in_or_app; auto.
Qed.

Lemma unlock_handle_wakes s t h a x b : find_id h (idx s) = Some (a, x, b) ->
  idx (fst (unlock_handle s t h)) = a ++ b /\
  (forall w, In w (e_wait x) -> In w (ready (fst (unlock_handle s t h)))) /\
  snd (unlock_handle s t h) = [EvRet t 0].
Proof.
  intros E. unfold unlock_handle. rewrite E. cbn. repeat split; auto.
  intros w Hw. unfold wake_all. apply in_or_app; auto.
Qed.

(* ---------------------------------------------------------------- adjust safe ---- *)
(* adjust_range either refuses and changes nothing, or replaces the node's range in place, keeps the set
   ordered, wakes the node's waiters, and the new range shares no byte with any other held range *)
Lemma rl_adjust_safe_proof s t h o l s' evs :
  inv s -> Forall (fun e => nosat (e_off e) (e_len e)) (idx s) -> u64 o -> u64 l -> nosat o l ->
  adjust_range s t (Some h) o l = (s', evs) ->
  (s' = s /\ (evs = [EvRet t (-1)] \/ evs = [EvStale t])) \/
  (evs = [EvRet t 0] /\ inv s' /\ exists a x b, idx s = a ++ x :: b /\ e_id x = h /\
     idx s' = a ++ clear_wait (set_range x o l) :: b /\ ready s' = ready s ++ e_wait x /\
     (forall e y, In e (a ++ b) -> byte_in y e -> o <= y < o + l -> False)).
Proof.
  intros Hinv Hns Uo Ul Nsat H.
  pose proof (adjust_range_gen_inv true s t (Some h) o l s' evs Hinv Uo Ul H) as Hinv'.
  unfold adjust_range, adjust_range_gen in H.
  destruct (find_id h (idx s)) as [[[a x] b]|] eqn:E; [|inversion H; subst; left; auto].
  destruct (find_id_split _ _ _ _ _ E) as [Hl Hid].
  match type of H with (if ?c then _ else _) = _ => destruct c end; inversion H; subst; clear H; [left; auto|].
  right. split; auto. split; auto. exists a, x, b. repeat split; auto.
  intros e y He [Hy1 Hy2] Hy3. destruct Hinv' as [Ho' _ _]. cbn in Ho'.
  apply ordered_app_inv in Ho'. destruct Ho' as (_ & Ho2 & Ho3). apply ordered_cons_inv in Ho2. destruct Ho2 as [_ Ho2].
  rewrite Hl in Hns. rewrite Forall_forall in Hns. unfold nosat in *.
  apply in_app_or in He. destruct He as [He|He].
  - specialize (Ho3 e _ He (or_introl eq_refl)). unfold before in Ho3. cbn in Ho3.
    assert (Hin : In e (a ++ x :: b)) by (apply in_or_app; auto). specialize (Hns e Hin). cbn in Hns.
    unfold e_end in Ho3. rewrite r_end_nosat in Ho3 by auto. lia.
  - specialize (Ho2 e He). unfold before, e_end in Ho2. cbn in Ho2. rewrite r_end_nosat in Ho2 by auto. lia.
Qed.

(* --------------------------------------- std::set::lower_bound on the real tree ---- *)
(* libstdc++ _Rb_tree::_M_lower_bound(x, y, k):
     while (x != 0) if (!comp(key(x), k)) y = x, x = left(x); else x = right(x);  return iterator(y);
   An iterator is identified with the in-order suffix that starts at its node (end() = []).
   [y] is the suffix of the current candidate = everything after the current subtree. *)
Inductive tree := Leaf | Node (l : tree) (x : entry) (r : tree).
Fixpoint inorder (t : tree) : list entry :=
  match t with Leaf => [] | Node l x r => inorder l ++ x :: inorder r end.
Fixpoint tree_lb (o : Z) (t : tree) (y : list entry) : list entry :=
  match t with
  | Leaf => y
  | Node l x r => if e_end x <=? o                       (* comp(key(x), k): x.end() <= k.offset *)
                  then tree_lb o r y
                  else tree_lb o l (x :: inorder r ++ y)
  end.

Lemma lb_split_skip o a : forall b, Forall (fun x => e_end x <= o) a -> snd (lb_split o (a ++ b)) = snd (lb_split o b).
Proof.
  induction a as [|x a IH]; intros b H; cbn; auto.
  inversion H; subst. apply Z.leb_le in H2. rewrite H2.
  specialize (IH b H3). destruct (lb_split o (a ++ b)). cbn in *. auto.
Qed.

Lemma lb_split_stop o b : match b with [] => True | h :: _ => o < e_end h end -> snd (lb_split o b) = b.
Proof. destruct b as [|h b]; cbn; auto. intros H. apply Z.leb_gt in H. rewrite H. reflexivity. Qed.

Lemma tree_lb_spec o t : forall y,
  ordered (inorder t ++ y) -> Forall wf_e (inorder t ++ y) ->
  match y with [] => True | h :: _ => o < e_end h end ->
  tree_lb o t y = snd (lb_split o (inorder t ++ y)).
Proof.
  induction t as [|l IHl x r IHr]; intros y Ho Hw Hy; cbn [tree_lb inorder].
  - cbn. symmetry. apply lb_split_stop. exact Hy.
  - cbn [inorder] in Ho, Hw.
    assert (Heq : (inorder l ++ x :: inorder r) ++ y = inorder l ++ x :: (inorder r ++ y)) by (rewrite <- app_assoc; reflexivity).
    rewrite Heq in *. clear Heq.
    destruct (e_end x <=? o) eqn:E.
    + apply Z.leb_le in E.
      pose proof (ordered_app_inv (inorder l) (x :: inorder r ++ y) Ho) as (_ & Ho2 & _).
      pose proof (proj2 (proj1 (Forall_app _ (inorder l) (x :: inorder r ++ y)) Hw)) as Hw2.
      apply ordered_cons_inv in Ho2. destruct Ho2 as [Ho2 _]. inversion Hw2; subst.
      rewrite IHr; auto.
      change (inorder l ++ x :: inorder r ++ y) with (inorder l ++ [x] ++ (inorder r ++ y)).
      rewrite app_assoc. rewrite (lb_split_skip o (inorder l ++ [x]) (inorder r ++ y)); auto.
      apply Forall_app; split; [|constructor; auto].
      rewrite Forall_forall. intros z Hz. apply in_split in Hz. destruct Hz as (l1 & l2 & Hz).
      pose proof (ordered_end_mono _ Ho Hw z x l1 (l2 ++ x :: inorder r ++ y)) as Hm.
      rewrite Hz in Hm. rewrite <- app_assoc in Hm. cbn in Hm. specialize (Hm eq_refl).
      assert (In x (l2 ++ x :: inorder r ++ y)) by (apply in_or_app; right; left; auto). specialize (Hm H). lia.
    + apply Z.leb_gt in E. rewrite IHl; auto.
Qed.

(* lower_bound_partition: on every tree whose in-order sequence satisfies the ordering invariant,
   libstdc++'s descent returns exactly the position the list model computes (whatever the shape) *)
Lemma lower_bound_partition_proof o t : ordered (inorder t) -> Forall wf_e (inorder t) ->
  tree_lb o t [] = snd (lb_split o (inorder t)).
Proof.
  intros Ho Hw. rewrite (tree_lb_spec o t []); rewrite ?app_nil_r; auto.
Qed.

(* the position is also the one emplace_hint needs: everything before it is < r, and in the insert branch
   r < *it (or it == end()), so _M_get_insert_hint_unique_pos accepts the hint (no fallback search) *)
Lemma hint_exact_proof s o pre post : inv s -> lb_split o (idx s) = (pre, post) ->
  Forall (fun x => r_lt (e_off x) (e_len x) o = true) pre /\
  Forall (fun x => r_lt (e_off x) (e_len x) o = false) post.
Proof.
  intros [Ho Hw _] E. split.
  - pose proof (lb_split_pre _ _ _ _ E) as H. eapply Forall_impl; [|exact H]. intros x Hx. apply Z.leb_le; auto.
  - pose proof (lb_split_post _ _ _ _ Ho Hw E) as H. eapply Forall_impl; [|exact H]. intros x Hx. apply Z.leb_gt; auto.
Qed.

(* ------------------------------------------------------ the undefined insertion ---- *)
Definition G_strict (c : op) : Prop := op_u64 c /\ op_P nosat c /\ op_P nonempty c.

Lemma attempt_no_ub s t k o l u : nosat o l -> nonempty o l -> ~ In (EvUB u) (snd (attempt s t k o l)).
Proof.
  intros Hn He. unfold nosat, nonempty in *. unfold attempt. destruct (lb_split o (idx s)) as [pre post].
  assert (Hd : dup_empty pre o l = false).
  { unfold dup_empty. rewrite r_end_nosat by auto. destruct (o + l =? o) eqn:E2; auto. apply Z.eqb_eq in E2. lia. }
  rewrite Hd. destruct post as [|x post']; cbn.
  - intros [H|[]]; discriminate.
  - destruct (e_off x <? r_end o l); cbn; intros [H|[]]; discriminate.
Qed.

(* under the F3/F4 guards the std::set precondition is never violated, whatever the interleaving *)
Lemma rl_no_ub_proof s : reachable G_strict s ->
  (forall c u, G_strict c -> ~ In (EvUB u) (snd (exec_op s c))) /\
  (forall t u, ~ In (EvUB u) (snd (wake s t))).
Proof.
  intros Hr.
  destruct (reachable_P nosat G_strict s (fun c Hc => proj1 (proj2 Hc)) Hr) as [_ Hn].
  destruct (reachable_P nonempty G_strict s (fun c Hc => proj2 (proj2 Hc)) Hr) as [_ He].
  split.
  - intros c u (Hc1 & Hc2 & Hc3). unfold exec_op. destruct (is_pending s (op_tid c)); [cbn; intros [H|[]]; discriminate|].
    destruct c as [t k o l|t o l|t h|t h o l|t u0]; cbn in Hc2, Hc3.
    + apply attempt_no_ub; auto.
    + unfold unlock_range. destruct (lb_split o (idx s)). destruct (unlock_loop o l l1). cbn; intros [H|[]]; discriminate.
    + unfold unlock_handle. destruct (find_id h (idx s)) as [[[a x] b]|]; cbn; intros [H|[]]; discriminate.
    + unfold adjust_range, adjust_range_gen. destruct h as [h|]; [|cbn; intros [H|[]]; discriminate].
      destruct (find_id h (idx s)) as [[[a x] b]|]; [|cbn; intros [H|[]]; discriminate].
      match goal with |- context [if ?c then _ else _] => destruct c end; cbn; intros [H|[]]; discriminate.
    + unfold interrupt. destruct (is_parked s u0); cbn; intros [H|[]]; discriminate.
  - intros t u. unfold wake. destruct (lookup_pend t (pend s)) as [p|] eqn:E; [|cbn; tauto].
    apply lookup_pend_in in E. rewrite Forall_forall in Hn, He. specialize (Hn _ E). specialize (He _ E). cbn in Hn, He.
    destruct (p_kind p); try (cbn; intros [H|[]]; discriminate).
    apply attempt_no_ub; auto.
Qed.

(* ------------------------------------------------------------- refutations ---- *)
Definition T64 : Z := 18446744073709551616.

(* F3: unlock(5,0) does not erase the range taken by try_lock_wait(5,0) ... *)
Definition f3_ops : list op := [OTry 1 KT 5 0; OUnlock 1 5 0; OTry 2 KL 4 2].
Lemma f3_ops_u64 : Forall op_u64 f3_ops /\ Forall (op_P nosat) f3_ops.
Proof. unfold f3_ops, op_u64, op_P, nosat, u64; rewrite MAX64_val; split; repeat constructor; lia. Qed.

Lemma rl_unlock_erases_refuted_proof :
  exists s t o l e, reachable op_u64 s /\ Forall (fun e => nosat (e_off e) (e_len e)) (idx s) /\ u64 o /\ u64 l /\ nosat o l /\
    In e (idx (fst (unlock_range s t o l))) /\ o <= e_off e /\ e_off e + e_len e <= o + l.
Proof.
  exists (fst (run_ops init_state [OTry 1 KT 5 0])), 1, 5, 0, (mkE 5 0 0 []).
  split. { apply run_ops_reachable; [constructor|reflexivity|]. unfold op_u64, u64; rewrite MAX64_val; repeat constructor; lia. }
  assert (E : fst (run_ops init_state [OTry 1 KT 5 0]) = mkSt [mkE 5 0 0 []] 1 [] []) by (vm_compute; reflexivity).
  rewrite E. cbn [idx].
  split. { constructor; [|constructor]. unfold nosat; cbn [e_off e_len]. rewrite MAX64_val. lia. }
  unfold u64, nosat; rewrite MAX64_val. cbn [e_off e_len]. repeat split; try lia.
  assert (E2 : idx (fst (unlock_range (mkSt [mkE 5 0 0 []] 1 [] []) 1 5 0)) = [mkE 5 0 0 []]) by (vm_compute; reflexivity).
  rewrite E2. left; reflexivity.
Qed.

(* ... and the thread that later asks for [4,6) parks on that zero-length node although its owner released it *)
Lemma rl_f3_waits_forever_refuted_proof :
  Forall op_u64 f3_ops /\ Forall (op_P nosat) f3_ops /\
  let s := fst (run_ops init_state f3_ops) in
  idx s = [mkE 5 0 0 [2]] /\ lookup_pend 2 (pend s) = Some (mkP KL 4 2 5 0) /\ ready s = [].
Proof. split; [apply f3_ops_u64|]. split; [apply f3_ops_u64|]. vm_compute. auto. Qed.

(* F3, worst form: a second empty range at the same point violates the Compare requirements of std::set *)
Lemma rl_set_precondition_refuted_proof :
  exists cs, Forall op_u64 cs /\ Forall (op_P nosat) cs /\
    exists n evs ix, nth_error (run_case cs) n = Some (evs, ix) /\ In (EvUB 2) evs.
Proof.
  exists [OTry 1 KL 1 0; OTry 2 KL 1 0].
  split. { unfold op_u64, u64; rewrite MAX64_val; repeat constructor; lia. }
  split. { unfold op_P, nosat; rewrite MAX64_val; repeat constructor; lia. }
  exists 1%nat. eexists. eexists. split; [vm_compute; reflexivity|]. left; reflexivity.
Qed.

(* F4: end() saturates at 2^64-1, so [2^64-10, 2^64) and [2^64-1, 2^64) are both granted: byte 2^64-1 is held twice *)
Definition f4_ops : list op := [OTry 1 KT (T64 - 10) 10; OTry 2 KT (T64 - 1) 1].
Lemma rl_disjoint_refuted_proof :
  exists cs, Forall op_u64 cs /\ ~ disjoint_held (idx (fst (run_ops init_state cs))).
Proof.
  exists f4_ops. split.
  { unfold f4_ops, op_u64, u64, T64; rewrite MAX64_val; repeat constructor; lia. }
  intros H.
  assert (E : idx (fst (run_ops init_state f4_ops)) = [mkE (T64 - 10) 10 0 []; mkE (T64 - 1) 1 1 []]) by (vm_compute; reflexivity).
  rewrite E in H.
  apply (H 0%nat 1%nat (mkE (T64 - 10) 10 0 []) (mkE (T64 - 1) 1 1 []) (T64 - 1)); try reflexivity; try discriminate;
    unfold byte_in, T64; cbn [e_off e_len]; lia.
Qed.

(* F20 (repaired by repo_patches/C18-fix-adjust-range-notify.diff): before the repair adjust_range did not
   notify; a thread parked on the node stayed parked although the new range no longer conflicts with it *)
Lemma rl_adjust_prefix_refuted_proof :
  let s := fst (run_ops init_state [OTry 1 KL 0 4; OTry 2 KL 2 2]) in
  let s' := fst (adjust_range_gen false s 0 (Some 0) 0 1) in
  snd (adjust_range_gen false s 0 (Some 0) 0 1) = [EvRet 0 0] /\
  idx s' = [mkE 0 1 0 [2]] /\ lookup_pend 2 (pend s') = Some (mkP KL 2 2 0 4) /\ ready s' = [] /\
  (* the same call on the repaired code wakes thread 2 *)
  ready (fst (adjust_range s 0 (Some 0) 0 1)) = [2] /\ idx (fst (adjust_range s 0 (Some 0) 0 1)) = [mkE 0 1 0 []].
Proof. vm_compute. repeat split; reflexivity. Qed.
