From Coq Require Import ZArith List Lia.
From PV Require Import Base.U64 C18.C18_Model.
Lemma placeholder : True. Proof. exact I. Qed.
