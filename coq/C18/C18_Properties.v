From Coq Require Import ZArith List.
From PV Require Import Base.U64 C18.C18_Model C18.C18_Proofs.
Theorem c18_placeholder : True. Proof. exact placeholder. Qed.
Print Assumptions c18_placeholder.
