(* C18_Properties.v — the property theorems of C18 (RangeLock).  Statements only; proofs are in C18_Proofs.v. *)
From Coq Require Import ZArith List.
From PV Require Import Base.U64 C18.C18_Model C18.C18_Proofs C18.C18_Waiters.
Import ListNotations.
Local Open Scope Z_scope.

(* For EVERY interleaving of RangeLock method calls and wake-ups by any number of threads (reachable = any
   sequence of atomic steps), with requests that do not reach past 2^64-1 (guard = class of known finding F4):
   the held ranges are pairwise disjoint as byte sets and m_index is ordered by the comparator. *)
Theorem rl_disjoint : forall s, reachable G_safe s -> disjoint_held (idx s) /\ ordered (idx s).
Proof. exact rl_disjoint_proof. Qed.
Print Assumptions rl_disjoint.

(* the same for every scripted operation sequence (induction over op lists), as run by the correspondence check *)
Theorem rl_disjoint_ops : forall cs, Forall G_safe cs ->
  disjoint_held (idx (fst (run_ops init_state cs))) /\ ordered (idx (fst (run_ops init_state cs))).
Proof. exact rl_disjoint_ops_proof. Qed.
Print Assumptions rl_disjoint_ops.

(* no guard at all is needed for the ordering of the set (zero lengths, saturating ends included) *)
Theorem rl_ordered : forall s, reachable op_u64 s -> ordered (idx s) /\ NoDup (map e_id (idx s)).
Proof. exact rl_ordered_proof. Qed.
Print Assumptions rl_ordered.

(* F4: without the guard byte 2^64-1 can be held twice *)
Theorem rl_disjoint_refuted : exists cs, Forall op_u64 cs /\ ~ disjoint_held (idx (fst (run_ops init_state cs))).
Proof. exact rl_disjoint_refuted_proof. Qed.
Print Assumptions rl_disjoint_refuted.

Theorem rl_retry_succeeds : forall s t k o l,
  inv s ->
  Forall (fun e => nosat (e_off e) (e_len e)) (idx s) -> Forall (fun e => nonempty (e_off e) (e_len e)) (idx s) ->
  u64 o -> u64 l -> nosat o l -> nonempty o l ->
  (forall e x, In e (idx s) -> byte_in x e -> o <= x < o + l -> False) ->
  exists pre post, idx s = pre ++ post /\
    attempt s t k o l = (mkSt (pre ++ mkE o l (nid s) [] :: post) (nid s + 1) (pend s) (ready s), [EvAcq t k (nid s)]).
Proof. exact rl_retry_succeeds_proof. Qed.
Print Assumptions rl_retry_succeeds.

Theorem rl_unlock_erases : forall s t o l s' evs,
  inv s ->
  Forall (fun e => nosat (e_off e) (e_len e)) (idx s) -> Forall (fun e => nonempty (e_off e) (e_len e)) (idx s) ->
  u64 o -> u64 l -> nosat o l ->
  unlock_range s t o l = (s', evs) ->
  forall e, In e (idx s') -> ~ (o <= e_off e /\ e_off e + e_len e <= o + l).
Proof. exact rl_unlock_erases_proof. Qed.
Print Assumptions rl_unlock_erases.

(* F3: with an empty range the statement fails ... *)
Theorem rl_unlock_erases_refuted :
  exists s t o l e, reachable op_u64 s /\ Forall (fun e => nosat (e_off e) (e_len e)) (idx s) /\ u64 o /\ u64 l /\ nosat o l /\
    In e (idx (fst (unlock_range s t o l))) /\ o <= e_off e /\ e_off e + e_len e <= o + l.
Proof. exact rl_unlock_erases_refuted_proof. Qed.
Print Assumptions rl_unlock_erases_refuted.

Theorem rl_adjust_safe : forall s t h o l s' evs,
  inv s -> Forall (fun e => nosat (e_off e) (e_len e)) (idx s) -> u64 o -> u64 l -> nosat o l ->
  adjust_range s t (Some h) o l = (s', evs) ->
  (s' = s /\ (evs = [EvRet t (-1)] \/ evs = [EvStale t])) \/
  (evs = [EvRet t 0] /\ inv s' /\ exists a x b, idx s = a ++ x :: b /\ e_id x = h /\
     idx s' = a ++ clear_wait (set_range x o l) :: b /\ ready s' = ready s ++ e_wait x /\
     (forall e y, In e (a ++ b) -> byte_in y e -> o <= y < o + l -> False)).
Proof. exact rl_adjust_safe_proof. Qed.
Print Assumptions rl_adjust_safe.

Theorem lower_bound_partition : forall o t, ordered (inorder t) -> Forall wf_e (inorder t) ->
  tree_lb o t [] = snd (lb_split o (inorder t)).
Proof. exact lower_bound_partition_proof. Qed.
Print Assumptions lower_bound_partition.

(* the position is the one emplace_hint needs: everything before it is < r, nothing from it on is *)
Theorem hint_exact : forall s o pre post, inv s -> lb_split o (idx s) = (pre, post) ->
  Forall (fun x => r_lt (e_off x) (e_len x) o = true) pre /\
  Forall (fun x => r_lt (e_off x) (e_len x) o = false) post.
Proof. exact hint_exact_proof. Qed.
Print Assumptions hint_exact.

(* rl_waiter_woken, step form: every node removed by unlock(offset,length) / unlock(handle) hands all
   its waiters to the ready set *)
Theorem rl_waiter_woken_range : forall s t o l s' evs, unlock_range s t o l = (s', evs) ->
  forall y, In y (idx s) -> In y (idx s') \/ (forall w, In w (e_wait y) -> In w (ready s')).
Proof. exact unlock_range_wakes. Qed.
Print Assumptions rl_waiter_woken_range.

Theorem rl_waiter_woken_handle : forall s t h a x b, find_id h (idx s) = Some (a, x, b) ->
  idx (fst (unlock_handle s t h)) = a ++ b /\
  (forall w, In w (e_wait x) -> In w (ready (fst (unlock_handle s t h)))) /\
  snd (unlock_handle s t h) = [EvRet t 0].
Proof. exact unlock_handle_wakes. Qed.
Print Assumptions rl_waiter_woken_handle.

(* rl_waiter_woken, interleaving form (any guard G on the ops, any number of threads, any schedule) *)
Theorem rl_waiter_woken : forall (G : op -> Prop) s, reachable G s ->
  forall t p, In (t, p) (pend s) ->
    In t (ready s) \/ exists e, In e (idx s) /\ In t (e_wait e).
Proof. exact rl_waiter_woken_proof. Qed.
Print Assumptions rl_waiter_woken.

Theorem rl_waiters_exact : forall (G : op -> Prop) s, reachable G s ->
  NoDup (ready s ++ parked (idx s)) /\ (forall t, In t (ready s ++ parked (idx s)) <-> In t (ptids s)).
Proof. exact rl_waiters_exact_proof. Qed.
Print Assumptions rl_waiters_exact.

(* no thread is parked on a node that does not conflict with its request (repaired adjust_range) *)
Theorem rl_no_stuck_waiter : forall (G : op -> Prop) s, reachable G s ->
  forall e w, In e (idx s) -> In w (e_wait e) ->
    exists p, lookup_pend w (pend s) = Some p /\ conflict p e.
Proof. exact rl_no_stuck_waiter_proof. Qed.
Print Assumptions rl_no_stuck_waiter.

(* F20: the code before repo_patches/C18-fix-adjust-range-notify.diff violates it *)
Theorem rl_adjust_prefix_refuted :
  let s := fst (run_ops init_state [OTry 1 KL 0 4; OTry 2 KL 2 2]) in
  let s' := fst (adjust_range_gen false s 0 (Some 0) 0 1) in
  snd (adjust_range_gen false s 0 (Some 0) 0 1) = [EvRet 0 0] /\
  idx s' = [mkE 0 1 0 [2]] /\ lookup_pend 2 (pend s') = Some (mkP KL 2 2 0 4) /\ ready s' = [] /\
  ready (fst (adjust_range s 0 (Some 0) 0 1)) = [2] /\ idx (fst (adjust_range s 0 (Some 0) 0 1)) = [mkE 0 1 0 []].
Proof. exact rl_adjust_prefix_refuted_proof. Qed.
Print Assumptions rl_adjust_prefix_refuted.

(* F3, consequence: after try_lock_wait(5,0); unlock(5,0) a locker of [4,6) parks on the leaked node *)
Theorem rl_f3_waits_forever_refuted :
  Forall op_u64 f3_ops /\ Forall (op_P nosat) f3_ops /\
  let s := fst (run_ops init_state f3_ops) in
  idx s = [mkE 5 0 0 [2]] /\ lookup_pend 2 (pend s) = Some (mkP KL 4 2 5 0) /\ ready s = [].
Proof. exact rl_f3_waits_forever_refuted_proof. Qed.
Print Assumptions rl_f3_waits_forever_refuted.

(* F3, worst form: two empty ranges at one point violate std::set's Compare requirements (undefined behaviour) *)
Theorem rl_set_precondition_refuted :
  exists cs, Forall op_u64 cs /\ Forall (op_P nosat) cs /\
    exists n evs ix, nth_error (run_case cs) n = Some (evs, ix) /\ In (EvUB 2) evs.
Proof. exact rl_set_precondition_refuted_proof. Qed.
Print Assumptions rl_set_precondition_refuted.

(* ... which cannot happen under the F3/F4 guards, in any interleaving *)
Theorem rl_no_ub : forall s, reachable G_strict s ->
  (forall c u, G_strict c -> ~ In (EvUB u) (snd (exec_op s c))) /\
  (forall t u, ~ In (EvUB u) (snd (wake s t))).
Proof. exact rl_no_ub_proof. Qed.
Print Assumptions rl_no_ub.

(* at quiescence of every scripted run every still-blocked thread sleeps on a live node that conflicts with its request *)
Theorem rl_quiescent : forall (G : op -> Prop) cs, Forall G cs ->
  let s := fst (run_ops init_state cs) in
  ready s = [] /\
  forall t p, In (t, p) (pend s) -> exists e, In e (idx s) /\ In t (e_wait e) /\ conflict p e.
Proof. exact rl_quiescent_proof. Qed.
Print Assumptions rl_quiescent.

(* waiters proceed when the conflict is gone: unlock(handle) of the node a lock() caller sleeps on makes it runnable,
   and when it resumes it acquires its range provided no other held range shares a byte with it *)
Theorem rl_handoff : forall s t0 t p a e b,
  inv s -> winv s ->
  idx s = a ++ e :: b -> In t (e_wait e) -> lookup_pend t (pend s) = Some p -> p_kind p = KL ->
  Forall (fun x => nosat (e_off x) (e_len x)) (idx s) -> Forall (fun x => nonempty (e_off x) (e_len x)) (idx s) ->
  u64 (p_off p) -> u64 (p_len p) -> nosat (p_off p) (p_len p) -> nonempty (p_off p) (p_len p) ->
  (forall x y, In x (a ++ b) -> byte_in y x -> p_off p <= y < p_off p + p_len p -> False) ->
  let s1 := fst (unlock_handle s t0 (e_id e)) in
  In t (ready s1) /\
  forall r1 r2, ready s1 = r1 ++ t :: r2 ->
    exists s2 pre post, wake (set_ready s1 (r1 ++ r2)) t = (s2, [EvAcq t KL (nid s)]) /\
                        idx s2 = pre ++ mkE (p_off p) (p_len p) (nid s) [] :: post /\ a ++ b = pre ++ post.
Proof. exact rl_handoff_proof. Qed.
Print Assumptions rl_handoff.
