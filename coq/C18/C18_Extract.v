(* Extraction of the C18 model: ExtrOcamlBasic only, no Extract Constant /
   Extract Inductive of our own; Z, positive, nat stay Coq's datatypes. *)
From Coq Require Import ZArith List.
From PV Require Import Base.U64 C18.C18_Model.
Require Extraction.
Require Import ExtrOcamlBasic.
Extraction "c18_model.ml" init_state run_op run_case n_held.
