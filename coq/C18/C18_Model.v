(* C18_Model.v — executable model of common/range-lock.h (class RangeLock).
   Definitions only (no proofs) so that the model still runs when a proof breaks.

   m_index (std::set<Range> ordered by range_t::operator<) is a list of entries kept
   in the order the comparator induces.  Every entry carries
     - offset, length            (range_t, lines 110-132; end() saturates, line 120-123)
     - an id                     (the identity of the tree node = the LockHandle pointer value;
                                  ids are handed out in insertion order)
     - the FIFO queue of threads parked on its condition variable (Range::cond, line 136).
   All uint64_t arithmetic that can reach the 2^64 boundary is written out
   (sat_add for end(), u64_sub for the conflict length).

   One call of a RangeLock method runs under m_lock (SCOPED_LOCK, a spinlock) up to the
   point where it returns or parks in cond.wait(m_lock); that is one atomic step here.
   A parked thread is made runnable only by the erasure of the entry it waits on
   (~Range() { cond.notify_all(); }, line 139): its tid moves to the [ready] queue, and
   its continuation ([wake]) is: try_lock_wait returns -1 with the conflicting range,
   try_lock_wait2 returns nullptr, lock() loops and calls try_lock_wait2 again. *)
From Coq Require Import ZArith List Bool.
From PV Require Import Base.U64.
Import ListNotations.
Local Open Scope Z_scope.

(* ---- range_t (lines 110-132) ------------------------------------------------- *)
Definition r_end (o l : Z) : Z := sat_add o l.                       (* end(), 120-123 *)
Definition r_lt (o1 l1 o2 : Z) : bool := r_end o1 l1 <=? o2.         (* operator<, 124-127: end() <= rhs.offset *)
Definition r_contains (o l xo xl : Z) : bool :=                      (* contains, 128-131 *)
  (o <=? xo) && (r_end xo xl <=? r_end o l).

(* ---- Range = range_t + condition variable (133-140), plus node identity ------ *)
Record entry := mkE { e_off : Z; e_len : Z; e_id : Z; e_wait : list Z }.
Definition e_end (e : entry) : Z := r_end (e_off e) (e_len e).
Definition add_waiter (e : entry) (t : Z) : entry :=
  mkE (e_off e) (e_len e) (e_id e) (e_wait e ++ [t]).
Definition set_range (e : entry) (o l : Z) : entry :=
  mkE o l (e_id e) (e_wait e).

(* the three locking entry points *)
Inductive kind := KT (* try_lock_wait *) | KW (* try_lock_wait2 *) | KL (* lock *).

(* a parked call: what it asked for and (for try_lock_wait) the conflicting range it
   stored into its reference arguments before waiting (lines 34-35) *)
Record preq := mkP { p_kind : kind; p_off : Z; p_len : Z; p_coff : Z; p_clen : Z }.

Record state := mkSt {
  idx   : list entry;          (* m_index, in comparator order *)
  nid   : Z;                   (* next node identity *)
  pend  : list (Z * preq);     (* threads inside a blocking call: tid -> request *)
  ready : list Z               (* threads made runnable by notify_all, in wake-up order *)
}.
Definition init_state : state := mkSt [] 0 [] [].

(* observable results *)
Inductive ev :=
| EvAcq  (t : Z) (k : kind) (id : Z)         (* returned 0 / a handle; node id inserted *)
| EvFail (t : Z) (k : kind) (co cl : Z)      (* returned -1 with conflict range / nullptr *)
| EvPark (t : Z) (id : Z)                    (* parked on entry id (not a return) *)
| EvRet  (t : Z) (r : Z)                     (* unlock (0) / adjust_range (0 or -1) returned *)
| EvBusy (t : Z)                             (* script error: thread is inside a blocking call *)
| EvStale (t : Z)                            (* script error: handle does not name a live node (UB in C++) *)
| EvUB (t : Z).                              (* std::set precondition violated (see [dup_empty]); not executed *)

(* ---- std::set::lower_bound(r) on the ordered list ---------------------------
   first element x with !(x < r), i.e. !(x.end() <= r.offset); returned as the split
   (elements before it, it and the rest).  C18_Proofs.lower_bound_partition shows
   that libstdc++'s tree descent returns the same position on every tree whose
   in-order sequence satisfies the ordering invariant. *)
Fixpoint lb_split (o : Z) (l : list entry) : list entry * list entry :=
  match l with
  | [] => ([], [])
  | x :: tl => if e_end x <=? o
               then let (a, b) := lb_split o tl in (x :: a, b)
               else ([], l)
  end.

(* ---- when the list model stops being a model of std::set ---------------------
   range_t::operator< is not irreflexive on a range whose end() equals its offset (length 0,
   or offset = 2^64-1 where end() saturates): such a range is "less than" itself.  Inserting
   a second one at the same point p is the only situation in which two keys are less than
   each other, i.e. in which the Compare requirements of std::set are violated.  libstdc++
   then decides the side in _M_insert_node by comp(new, parent) = true and overwrites the
   parent's left child when there is one (observed on the real class: three lock(1,0) calls
   lose a node and the process segfaults).  This is undefined behaviour; the model reports it
   as EvUB and does not execute the call, and so does the harness.  It cannot happen under
   the guards of known finding F3/F4 (length > 0, offset + length <= 2^64-1). *)
Definition dup_empty (pre : list entry) (o l : Z) : bool :=
  (r_end o l =? o) &&
  match rev pre with
  | x :: _ => (e_off x =? o) && (e_end x =? o)
  | [] => false
  end.

(* ---- try_lock_wait (28-42) / try_lock_wait2 (61-75), first half ------------- *)
Definition attempt (s : state) (t : Z) (k : kind) (o l : Z) : state * list ev :=
  let rend := r_end o l in
  let (pre, post) := lb_split o (idx s) in               (* it = m_index.lower_bound(r) *)
  let insert :=                                          (* m_index.emplace_hint(it, r) *)
    if dup_empty pre o l then (s, [EvUB t]) else
    (mkSt (pre ++ mkE o l (nid s) [] :: post) (nid s + 1) (pend s) (ready s),
     [EvAcq t k (nid s)]) in
  match post with
  | x :: post' =>
      if e_off x <? rend then                            (* it != end() && it->offset < r.end() *)
        let co := e_off x in                                           (* offset = it->offset *)
        let cl := u64_sub (Z.min (e_end x) rend) co in                 (* length = min(it->end(), r.end()) - offset *)
        (mkSt (pre ++ add_waiter x t :: post') (nid s)                 (* it->cond.wait(m_lock) *)
              (pend s ++ [(t, mkP k o l co cl)]) (ready s),
         [EvPark t (e_id x)])
      else insert
  | [] => insert
  end.

(* ---- erasing a node: ~Range() notifies all waiters (139) -------------------- *)
Definition wake_all (s_ready : list Z) (x : entry) : list Z := s_ready ++ e_wait x.

(* ---- unlock(offset, length) (44-57) ----------------------------------------- *)
(* the while loop from it = lower_bound(r): returns (surviving entries, woken tids) *)
Fixpoint unlock_loop (o l : Z) (post : list entry) : list entry * list Z :=
  match post with
  | [] => ([], [])
  | x :: tl =>
      if e_off x <? r_end o l then                       (* it != end() && it->offset < r.end() *)
        let (keep, wk) := unlock_loop o l tl in
        if r_contains o l (e_off x) (e_len x)
        then (keep, e_wait x ++ wk)                      (* it = m_index.erase(it) *)
        else (x :: keep, wk)                             (* ++it *)
      else (post, [])
  end.

Definition unlock_range (s : state) (t : Z) (o l : Z) : state * list ev :=
  let (pre, post) := lb_split o (idx s) in
  let (keep, wk) := unlock_loop o l post in
  (mkSt (pre ++ keep) (nid s) (pend s) (ready s ++ wk), [EvRet t 0]).

(* ---- handles: LockHandle pointer = iterator = node identity ------------------------- *)
Fixpoint find_id (h : Z) (l : list entry) : option (list entry * entry * list entry) :=
  match l with
  | [] => None
  | x :: tl => if e_id x =? h then Some ([], x, tl)
               else match find_id h tl with
                    | Some (a, y, b) => Some (x :: a, y, b)
                    | None => None
                    end
  end.

(* unlock(LockHandle h) (101-106) *)
Definition unlock_handle (s : state) (t : Z) (h : Z) : state * list ev :=
  match find_id h (idx s) with
  | None => (s, [EvStale t])
  | Some (a, x, b) => (mkSt (a ++ b) (nid s) (pend s) (wake_all (ready s) x), [EvRet t 0])
  end.

(* prev_end(it) (147-150) and next_offset(it) (143-146) *)
Definition prev_end (a : list entry) : Z :=
  match rev a with [] => 0 | p :: _ => e_end p end.
Definition next_offset (b : list entry) : Z :=
  match b with [] => MAX64 | n :: _ => e_off n end.

(* adjust_range (86-100); h = None is the null handle.
   [notify] = the line `it->cond.notify_all()` after the in-place mutation (the F20 repair,
   repo_patches/C18-fix-adjust-range-notify.diff): the threads parked on the adjusted node
   are made runnable so that they re-evaluate against the new range.  [notify = false] is
   the code before the repair (kept for the theorem rl_adjust_prefix_refuted). *)
Definition clear_wait (e : entry) : entry := mkE (e_off e) (e_len e) (e_id e) [].
Definition adjust_range_gen (notify : bool) (s : state) (t : Z) (h : option Z) (o l : Z) : state * list ev :=
  match h with
  | None => (s, [EvRet t (-1)])                                           (* if (!h) return -1 *)
  | Some h =>
    match find_id h (idx s) with
    | None => (s, [EvStale t])
    | Some (a, x, b) =>
        let r1end := r_end o l in
        if ((o <? e_off x) && (o <? prev_end a)) ||
           ((e_end x <? r1end) && (next_offset b <? r1end))
        then (s, [EvRet t (-1)])
        else if notify
        then (mkSt (a ++ clear_wait (set_range x o l) :: b) (nid s) (pend s) (wake_all (ready s) x), [EvRet t 0])
        else (mkSt (a ++ set_range x o l :: b) (nid s) (pend s) (ready s), [EvRet t 0])
    end
  end.
Definition adjust_range := adjust_range_gen true.

(* ---- threads ----------------------------------------------------------------- *)
Fixpoint lookup_pend (t : Z) (l : list (Z * preq)) : option preq :=
  match l with
  | [] => None
  | (u, p) :: tl => if u =? t then Some p else lookup_pend t tl
  end.
Fixpoint remove_pend (t : Z) (l : list (Z * preq)) : list (Z * preq) :=
  match l with
  | [] => []
  | (u, p) :: tl => if u =? t then tl else (u, p) :: remove_pend t tl
  end.
Definition is_pending (s : state) (t : Z) : bool :=
  match lookup_pend t (pend s) with Some _ => true | None => false end.

(* ---- a wake-up that is not a notification -------------------------------------
   cond.wait(m_lock) also returns when somebody calls photon::thread_interrupt on the
   parked thread (waitq::wait -> thread_usleep returns -1/EINTR); RangeLock ignores the
   result of wait, so the thread continues exactly as after a notification.  The thread
   leaves the node's wait queue and becomes runnable. *)
Definition unpark1 (u : Z) (e : entry) : entry :=
  mkE (e_off e) (e_len e) (e_id e) (filter (fun v => negb (v =? u)) (e_wait e)).
Definition unpark (u : Z) (l : list entry) : list entry := map (unpark1 u) l.
Definition is_parked (s : state) (u : Z) : bool :=
  existsb (fun e => existsb (Z.eqb u) (e_wait e)) (idx s).
Definition interrupt (s : state) (t u : Z) : state * list ev :=
  if is_parked s u
  then (mkSt (unpark u (idx s)) (nid s) (pend s) (ready s ++ [u]), [EvRet t 0])
  else (s, [EvRet t (-1)]).             (* target not parked in this RangeLock: nothing to model *)

Inductive op :=
| OTry     (t : Z) (k : kind) (o l : Z)
| OUnlock  (t : Z) (o l : Z)
| OUnlockH (t : Z) (h : Z)
| OAdjust  (t : Z) (h : option Z) (o l : Z)
| OInterrupt (t : Z) (u : Z).
Definition op_tid (c : op) : Z :=
  match c with OTry t _ _ _ => t | OUnlock t _ _ => t | OUnlockH t _ => t | OAdjust t _ _ _ => t | OInterrupt t _ => t end.

(* one atomic step: thread [op_tid c] calls a method and runs it until it returns or parks *)
Definition exec_op (s : state) (c : op) : state * list ev :=
  if is_pending s (op_tid c) then (s, [EvBusy (op_tid c)])
  else match c with
       | OTry t k o l    => attempt s t k o l
       | OUnlock t o l   => unlock_range s t o l
       | OUnlockH t h    => unlock_handle s t h
       | OAdjust t h o l => adjust_range s t h o l
       | OInterrupt t u  => interrupt s t u
       end.

(* one atomic step: a notified thread [t] resumes after cond.wait (36-37, 67-68, 79-83).
   try_lock_wait returns -1 and the conflicting range; try_lock_wait2 returns nullptr;
   lock() calls try_lock_wait2 again with the original arguments. *)
Definition wake (s : state) (t : Z) : state * list ev :=
  match lookup_pend t (pend s) with
  | None => (s, [])
  | Some p =>
      let s' := mkSt (idx s) (nid s) (remove_pend t (pend s)) (ready s) in
      match p_kind p with
      | KT => (s', [EvFail t KT (p_coff p) (p_clen p)])
      | KW => (s', [EvFail t KW 0 0])
      | KL => attempt s' t KL (p_off p) (p_len p)
      end
  end.

(* the notified threads run in wake-up order (single vCPU: they were appended to the run
   queue in that order and none is pre-empted); resuming never erases a node, so no new
   thread becomes ready while the queue is drained *)
Fixpoint drain_list (rs : list Z) (s : state) : state * list ev :=
  match rs with
  | [] => (s, [])
  | t :: rs' => let (s1, e1) := wake s t in
                let (s2, e2) := drain_list rs' s1 in (s2, e1 ++ e2)
  end.
Definition drain (s : state) : state * list ev :=
  drain_list (ready s) (mkSt (idx s) (nid s) (pend s) []).

(* scripted run used by the correspondence check: the op, then everybody it woke *)
Definition run_op (s : state) (c : op) : state * list ev :=
  let (s1, e1) := exec_op s c in
  let (s2, e2) := drain s1 in (s2, e1 ++ e2).

Fixpoint run_ops (s : state) (cs : list op) : state * list (list ev * list entry) :=
  match cs with
  | [] => (s, [])
  | c :: tl => let (s1, e1) := run_op s c in
               let (s2, r) := run_ops s1 tl in (s2, (e1, idx s1) :: r)
  end.
Definition run_case (cs : list op) : list (list ev * list entry) := snd (run_ops init_state cs).

(* number of held ranges (also keeps [nat] in the extracted module for the runner's I/O glue) *)
Definition n_held (s : state) : nat := length (idx s).
