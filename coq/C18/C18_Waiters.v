(* C18_Waiters.v — the waiter invariants of the RangeLock model, for every interleaving:
   every thread inside a blocking call is either runnable (notified) or parked on a node that
   still exists AND still conflicts with its request. *)
From Coq Require Import ZArith List Lia Bool Sorted Permutation.
From PV Require Import Base.U64 C18.C18_Model C18.C18_Proofs.
Import ListNotations.
Local Open Scope Z_scope.

Definition parked (l : list entry) : list Z := flat_map e_wait l.
Definition ptids (s : state) : list Z := map fst (pend s).

(* the request p conflicts with the node e (the test of lines 33/66, both directions) *)
Definition conflict (p : preq) (e : entry) : Prop :=
  e_off e < r_end (p_off p) (p_len p) /\ p_off p < e_end e.

Record winv (s : state) : Prop := mkW {
  w_nodup : NoDup (ptids s);
  w_perm  : Permutation (ptids s) (ready s ++ parked (idx s));
  w_conf  : forall e w, In e (idx s) -> In w (e_wait e) ->
            exists p, lookup_pend w (pend s) = Some p /\ conflict p e
}.

Lemma parked_app l1 l2 : parked (l1 ++ l2) = parked l1 ++ parked l2.
Proof. unfold parked. apply flat_map_app. Qed.
Lemma parked_cons x l : parked (x :: l) = e_wait x ++ parked l. Proof. reflexivity. Qed.

Lemma lookup_pend_app_l t l1 l2 p : lookup_pend t l1 = Some p -> lookup_pend t (l1 ++ l2) = Some p.
Proof.
  induction l1 as [|[u q] tl IH]; cbn; [discriminate|]. destruct (u =? t); auto.
Qed.

Lemma lookup_pend_none t l : ~ In t (map fst l) -> lookup_pend t l = None.
Proof.
  induction l as [|[u q] tl IH]; cbn; auto. intros H.
  destruct (u =? t) eqn:E; [apply Z.eqb_eq in E; subst; tauto|]. apply IH. tauto.
Qed.

Lemma lookup_pend_some t l : In t (map fst l) -> exists p, lookup_pend t l = Some p.
Proof.
  induction l as [|[u q] tl IH]; cbn; [tauto|]. intros [H|H].
  - subst. rewrite Z.eqb_refl. eauto.
  - destruct (u =? t); eauto.
Qed.

Lemma lookup_pend_app_new t l p : ~ In t (map fst l) -> lookup_pend t (l ++ [(t, p)]) = Some p.
Proof.
  induction l as [|[u q] tl IH]; cbn; intros H.
  - rewrite Z.eqb_refl. reflexivity.
  - destruct (u =? t) eqn:E; [apply Z.eqb_eq in E; subst; tauto|]. apply IH. tauto.
Qed.

Lemma lookup_remove_other t w l : w <> t -> lookup_pend w (remove_pend t l) = lookup_pend w l.
Proof.
  intros Hn. induction l as [|[u q] tl IH]; cbn; auto.
  destruct (u =? t) eqn:E.
  - apply Z.eqb_eq in E. subst. destruct (t =? w) eqn:E2; auto. apply Z.eqb_eq in E2. congruence.
  - cbn. destruct (u =? w); auto.
Qed.

Lemma remove_pend_split t l : In t (map fst l) ->
  exists l1 l2, map fst l = l1 ++ t :: l2 /\ map fst (remove_pend t l) = l1 ++ l2.
Proof.
  induction l as [|[u q] tl IH]; cbn; [tauto|]. intros H.
  destruct (u =? t) eqn:E.
  - apply Z.eqb_eq in E. subst. exists [], (map fst tl). auto.
  - destruct H as [H|H]; [apply Z.eqb_neq in E; congruence|].
    destruct (IH H) as (l1 & l2 & H1 & H2). exists (u :: l1), l2. cbn. rewrite H1, H2. auto.
Qed.

Lemma NoDup_remove_mid {A} (l1 l2 : list A) a : NoDup (l1 ++ a :: l2) -> NoDup (l1 ++ l2) /\ ~ In a (l1 ++ l2).
Proof. apply NoDup_remove. Qed.

(* ---------------------------------------------------------------- attempt ---- *)
Lemma attempt_winv s t k o l s' evs : winv s -> ~ In t (ptids s) ->
  attempt s t k o l = (s', evs) -> winv s'.
Proof.
  intros [Hn Hp Hc] Ht H. unfold attempt in H. unfold ptids in *.
  destruct (lb_split o (idx s)) as [pre post] eqn:E.
  pose proof (lb_split_app _ _ _ _ E) as Hl.
  assert (Hins : winv (mkSt (pre ++ mkE o l (nid s) [] :: post) (nid s + 1) (pend s) (ready s))).
  { split; unfold ptids; cbn; auto.
    - rewrite parked_app, parked_cons. cbn. rewrite <- parked_app, <- Hl. auto.
    - intros e w He Hw. apply in_app_or in He. destruct He as [He|[<-|He]].
      + apply Hc with (e := e); auto. rewrite Hl. apply in_or_app; auto.
      + destruct Hw.
      + apply Hc with (e := e); auto. rewrite Hl. apply in_or_app; auto. }
  destruct post as [|x post'].
  - destruct (dup_empty pre o l); inversion H; subst; auto. split; auto.
  - destruct (e_off x <? r_end o l) eqn:E2.
    + inversion H; subst; clear H. apply Z.ltb_lt in E2.
      pose proof (lb_split_post_head _ _ _ _ _ E) as Hx.
      split; unfold ptids; cbn.
      * rewrite map_app. cbn [map fst].
        eapply Permutation_NoDup; [apply Permutation_cons_append|]. constructor; auto.
      * rewrite map_app. cbn [map fst].
        rewrite Hl, parked_app, parked_cons in Hp.
        rewrite parked_app, parked_cons. cbn [add_waiter e_wait].
        (* M ++ [t]  ~  ready ++ parked pre ++ (wx ++ [t]) ++ parked post' *)
        apply Permutation_trans with (l' := t :: map fst (pend s)).
        { apply Permutation_sym. apply Permutation_cons_append. }
        apply Permutation_trans with (l' := t :: (ready s ++ parked pre ++ e_wait x ++ parked post')).
        { apply perm_skip. exact Hp. }
        rewrite !app_assoc. rewrite <- !app_assoc.
        change (t :: ready s ++ parked pre ++ e_wait x ++ parked post') with ([] ++ t :: (ready s ++ parked pre ++ e_wait x ++ parked post')).
        replace (ready s ++ parked pre ++ e_wait x ++ [t] ++ parked post')
          with ((ready s ++ parked pre ++ e_wait x) ++ t :: parked post') by (rewrite <- !app_assoc; reflexivity).
        replace (ready s ++ parked pre ++ e_wait x ++ parked post')
          with ((ready s ++ parked pre ++ e_wait x) ++ parked post') by (rewrite <- !app_assoc; reflexivity).
        cbn [app]. apply Permutation_middle.
      * intros e w He Hw. apply in_app_or in He. destruct He as [He|[<-|He]].
        -- destruct (Hc e w) as (p & Hp1 & Hp2); auto. { rewrite Hl. apply in_or_app; auto. }
           exists p; split; auto. apply lookup_pend_app_l; auto.
        -- cbn in Hw. apply in_app_or in Hw. destruct Hw as [Hw|[<-|[]]].
           ++ destruct (Hc x w) as (p & Hp1 & Hp2); auto. { rewrite Hl. apply in_or_app; right; left; auto. }
              exists p; split; auto. apply lookup_pend_app_l; auto.
           ++ eexists. split; [apply lookup_pend_app_new; auto|].
              unfold conflict; cbn. split; auto.
        -- destruct (Hc e w) as (p & Hp1 & Hp2); auto. { rewrite Hl. apply in_or_app; right; right; auto. }
           exists p; split; auto. apply lookup_pend_app_l; auto.
    + destruct (dup_empty pre o l); inversion H; subst; auto. split; auto.
Qed.

(* ----------------------------------------------------------------- unlock ---- *)
Lemma unlock_loop_perm o l post : forall keep wk, unlock_loop o l post = (keep, wk) ->
  Permutation (parked post) (wk ++ parked keep).
Proof.
  induction post as [|x tl IH]; intros keep wk H; cbn in H.
  - inversion H; subst. constructor.
  - destruct (e_off x <? r_end o l).
    + destruct (unlock_loop o l tl) as [k' w'] eqn:E2. specialize (IH _ _ eq_refl).
      destruct (r_contains o l (e_off x) (e_len x)); inversion H; subst; clear H; rewrite parked_cons.
      * rewrite <- app_assoc. apply Permutation_app_head. exact IH.
      * rewrite parked_cons.
        eapply Permutation_trans; [apply Permutation_app_head; exact IH | apply Permutation_app_swap_app].
    + inversion H; subst. cbn. apply Permutation_refl.
Qed.

Lemma unlock_range_winv s t o l s' evs : winv s -> unlock_range s t o l = (s', evs) -> winv s'.
Proof.
  intros [Hn Hp Hc] H. unfold unlock_range in H. unfold ptids in *.
  destruct (lb_split o (idx s)) as [pre post] eqn:E. destruct (unlock_loop o l post) as [keep wk] eqn:E2.
  inversion H; subst; clear H. pose proof (lb_split_app _ _ _ _ E) as Hl.
  split; unfold ptids; cbn; auto.
  - rewrite Hl, parked_app in Hp. rewrite parked_app.
    eapply Permutation_trans; [exact Hp|].
    rewrite <- app_assoc. apply Permutation_app_head.
    apply Permutation_trans with (l' := parked pre ++ wk ++ parked keep).
    + apply Permutation_app_head. eapply unlock_loop_perm; eauto.
    + apply Permutation_app_swap_app.
  - intros e w He Hw. apply (Hc e w); auto. rewrite Hl. apply in_app_or in He. apply in_or_app.
    destruct He; auto. right. eapply unlock_loop_incl; eauto.
Qed.

Lemma remove_node_perm (r a b : list Z) (wx : list Z) M :
  Permutation M (r ++ a ++ wx ++ b) -> Permutation M ((r ++ wx) ++ a ++ b).
Proof.
  intros H. eapply Permutation_trans; [exact H|].
  rewrite <- app_assoc. apply Permutation_app_head. apply Permutation_app_swap_app.
Qed.

Lemma unlock_handle_winv s t h s' evs : winv s -> unlock_handle s t h = (s', evs) -> winv s'.
Proof.
  intros [Hn Hp Hc] H. unfold unlock_handle in H. unfold ptids in *.
  destruct (find_id h (idx s)) as [[[a x] b]|] eqn:E; [|inversion H; subst; split; auto].
  inversion H; subst; clear H. destruct (find_id_split _ _ _ _ _ E) as [Hl _].
  split; unfold ptids; cbn; auto.
  - rewrite Hl, parked_app, parked_cons in Hp. rewrite parked_app. unfold wake_all.
    apply remove_node_perm; auto.
  - intros e w He Hw. apply (Hc e w); auto. rewrite Hl. apply in_app_or in He. apply in_or_app.
    destruct He; auto. right; right; auto.
Qed.

(* adjust_range AFTER the F20 repair: the adjusted node's waiters are notified *)
Lemma adjust_range_winv s t h o l s' evs : winv s -> adjust_range s t h o l = (s', evs) -> winv s'.
Proof.
  intros [Hn Hp Hc] H. unfold adjust_range, adjust_range_gen in H. unfold ptids in *.
  destruct h as [h|]; [|inversion H; subst; split; auto].
  destruct (find_id h (idx s)) as [[[a x] b]|] eqn:E; [|inversion H; subst; split; auto].
  destruct (find_id_split _ _ _ _ _ E) as [Hl _].
  match type of H with (if ?c then _ else _) = _ => destruct c end; inversion H; subst; clear H; [split; auto|].
  split; unfold ptids; cbn; auto.
  - rewrite Hl, parked_app, parked_cons in Hp. rewrite parked_app, parked_cons. cbn [clear_wait e_wait app]. unfold wake_all.
    apply remove_node_perm; auto.
  - intros e w He Hw. apply in_app_or in He. destruct He as [He|[<-|He]].
    + apply (Hc e w); auto. rewrite Hl. apply in_or_app; auto.
    + destruct Hw.
    + apply (Hc e w); auto. rewrite Hl. apply in_or_app; right; right; auto.
Qed.

(* -------------------------------------------------------------- interrupt ---- *)
Lemma parked_unpark u l : parked (unpark u l) = filter (fun v => negb (v =? u)) (parked l).
Proof.
  induction l as [|x l IH]; cbn; auto. rewrite filter_app. f_equal. exact IH.
Qed.

Lemma filter_out_id u (L : list Z) : ~ In u L -> filter (fun v => negb (v =? u)) L = L.
Proof.
  induction L as [|a L IH]; cbn; auto. intros H.
  destruct (a =? u) eqn:E; [apply Z.eqb_eq in E; subst; tauto|]. cbn. f_equal. apply IH. tauto.
Qed.

Lemma perm_filter_out u (L : list Z) : NoDup L -> In u L ->
  Permutation L (u :: filter (fun v => negb (v =? u)) L).
Proof.
  induction L as [|a L IH]; intros Hn Hin; [destruct Hin|].
  inversion Hn as [|? ? Ha Hn']; subst. cbn.
  destruct (a =? u) eqn:E.
  - apply Z.eqb_eq in E; subst. cbn. rewrite filter_out_id; auto.
  - cbn. destruct Hin as [->|Hin]; [rewrite Z.eqb_refl in E; discriminate|].
    eapply Permutation_trans; [apply perm_skip; apply IH; auto|]. apply perm_swap.
Qed.

Lemma is_parked_in s u : is_parked s u = true -> In u (parked (idx s)).
Proof.
  unfold is_parked, parked. intros H. apply existsb_exists in H. destruct H as (e & He & H).
  apply existsb_exists in H. destruct H as (v & Hv & H). apply Z.eqb_eq in H. subst.
  apply in_flat_map. exists e; auto.
Qed.

Lemma NoDup_app_r' {A} (l1 l2 : list A) : NoDup (l1 ++ l2) -> NoDup l2.
Proof. induction l1; cbn; auto. intros H. inversion H; auto. Qed.

Lemma interrupt_winv s t u s' evs : winv s -> interrupt s t u = (s', evs) -> winv s'.
Proof.
  intros [Hn Hp Hc] H. unfold interrupt in H. unfold ptids in *.
  destruct (is_parked s u) eqn:Ep; inversion H; subst; clear H; [|split; auto].
  apply is_parked_in in Ep.
  assert (Hnd : NoDup (parked (idx s))). { eapply NoDup_app_r'. eapply Permutation_NoDup; eauto. }
  split; unfold ptids; cbn; auto.
  - rewrite parked_unpark. eapply Permutation_trans; [exact Hp|].
    rewrite <- app_assoc. cbn [app]. apply Permutation_app_head. apply perm_filter_out; auto.
  - intros e w He Hw. unfold unpark in He. apply in_map_iff in He. destruct He as (z & <- & Hz).
    cbn in Hw. apply filter_In in Hw. destruct Hw as [Hw _].
    destruct (Hc z w Hz Hw) as (p & Hp1 & Hp2). exists p; split; auto.
Qed.

Lemma is_pending_false s t : is_pending s t = false -> ~ In t (ptids s).
Proof.
  unfold is_pending, ptids. intros H Hin. destruct (lookup_pend_some t (pend s) Hin) as [p Hp]. rewrite Hp in H. discriminate.
Qed.

Lemma exec_op_winv s c s' evs : winv s -> exec_op s c = (s', evs) -> winv s'.
Proof.
  intros Hw H. unfold exec_op in H. destruct (is_pending s (op_tid c)) eqn:Ep; [inversion H; subst; auto|].
  apply is_pending_false in Ep.
  destruct c as [t k o l|t o l|t h|t h o l|t u]; cbn in H, Ep.
  - eapply attempt_winv; eauto.
  - eapply unlock_range_winv; eauto.
  - eapply unlock_handle_winv; eauto.
  - eapply adjust_range_winv; eauto.
  - eapply interrupt_winv; eauto.
Qed.

(* ------------------------------------------------------------------- wake ---- *)
Lemma wake_winv s t r1 r2 s' evs : winv s -> ready s = r1 ++ t :: r2 ->
  wake (set_ready s (r1 ++ r2)) t = (s', evs) -> winv s'.
Proof.
  intros [Hn Hp Hc] Hr H. unfold ptids in *.
  assert (Hperm' : Permutation (map fst (pend s)) (t :: (r1 ++ r2) ++ parked (idx s))).
  { eapply Permutation_trans; [exact Hp|]. rewrite Hr. rewrite <- app_assoc. cbn [app].
    apply Permutation_sym. rewrite <- app_assoc. apply Permutation_middle. }
  assert (Hin : In t (map fst (pend s))).
  { eapply Permutation_in; [apply Permutation_sym; exact Hperm'|]. left; auto. }
  destruct (lookup_pend_some t (pend s) Hin) as [p Hlp].
  destruct (remove_pend_split t (pend s) Hin) as (l1 & l2 & Hs1 & Hs2).
  assert (Hnd : NoDup ((r1 ++ r2) ++ parked (idx s)) /\ ~ In t ((r1 ++ r2) ++ parked (idx s))).
  { assert (Hnd0 : NoDup (t :: (r1 ++ r2) ++ parked (idx s))) by (eapply Permutation_NoDup; eauto).
    inversion Hnd0; subst; auto. }
  destruct Hnd as [Hnd Hnt].
  assert (Hw0 : winv (mkSt (idx s) (nid s) (remove_pend t (pend s)) (r1 ++ r2))).
  { split; unfold ptids; cbn.
    - rewrite Hs2. rewrite Hs1 in Hn. apply NoDup_remove_1 in Hn. auto.
    - rewrite Hs2. rewrite Hs1 in Hperm'. apply Permutation_sym. eapply Permutation_cons_app_inv. apply Permutation_sym. exact Hperm'.
    - intros e w He Hw. destruct (Hc e w He Hw) as (q & Hq1 & Hq2). exists q; split; auto.
      rewrite lookup_remove_other; auto. intros ->. apply Hnt. apply in_or_app. right.
      unfold parked. apply in_flat_map. exists e; auto. }
  unfold wake in H. cbn [set_ready pend idx nid ready] in H. rewrite Hlp in H.
  destruct (p_kind p); try (inversion H; subst; exact Hw0).
  eapply attempt_winv; [exact Hw0| |exact H].
  unfold ptids; cbn. rewrite Hs2. rewrite Hs1 in Hn. apply NoDup_remove_2 in Hn. auto.
Qed.

Lemma reachable_winv (G : op -> Prop) s : reachable G s -> winv s.
Proof.
  intros H. induction H as [|s s' Hr IH Hs].
  - split; unfold ptids; cbn; try constructor. intros e w [].
  - destruct Hs as [s c s' evs Hc He | s t r1 r2 s' evs Hr' Hw].
    + eapply exec_op_winv; eauto.
    + eapply wake_winv; eauto.
Qed.

(* rl_waiter_woken (interleaving form): in any sequence of atomic lock-attempt / unlock / adjust / resume
   steps by any number of threads, a thread inside a blocking call is never left waiting on a node that no
   longer exists: it is either notified (runnable) or on the condition variable of a node of m_index. *)
Lemma rl_waiter_woken_proof (G : op -> Prop) s : reachable G s ->
  forall t p, In (t, p) (pend s) ->
    In t (ready s) \/ exists e, In e (idx s) /\ In t (e_wait e).
Proof.
  intros Hr t p Hin. destruct (reachable_winv G s Hr) as [_ Hp _].
  assert (Ht : In t (ptids s)) by (unfold ptids; apply in_map_iff; exists (t, p); auto).
  eapply Permutation_in in Ht; [|exact Hp]. apply in_app_or in Ht. destruct Ht as [Ht|Ht]; auto.
  right. unfold parked in Ht. apply in_flat_map in Ht. exact Ht.
Qed.

(* ... and conversely every parked / notified thread is inside exactly one blocking call, in exactly one place *)
Lemma rl_waiters_exact_proof (G : op -> Prop) s : reachable G s ->
  NoDup (ready s ++ parked (idx s)) /\ (forall t, In t (ready s ++ parked (idx s)) <-> In t (ptids s)).
Proof.
  intros Hr. destruct (reachable_winv G s Hr) as [Hn Hp _]. split.
  - eapply Permutation_NoDup; eauto.
  - intros t; split; intros H; [eapply Permutation_in; [apply Permutation_sym; exact Hp | exact H] | eapply Permutation_in; [exact Hp | exact H]].
Qed.

(* rl_no_stuck_waiter: a parked thread always waits on a node that CONFLICTS with its request: no thread is
   blocked while its range is free of the node it sleeps on (the enabledness form of "waiters proceed
   when the conflict is gone"; holds for the repaired adjust_range, see rl_adjust_prefix_refuted) *)
Lemma rl_no_stuck_waiter_proof (G : op -> Prop) s : reachable G s ->
  forall e w, In e (idx s) -> In w (e_wait e) ->
    exists p, lookup_pend w (pend s) = Some p /\ conflict p e.
Proof. intros Hr. destruct (reachable_winv G s Hr) as [_ _ Hc]. exact Hc. Qed.

(* ------------------------------------------------- quiescence and hand-over ---- *)
Lemma lookup_pend_unique t p l : NoDup (map fst l) -> In (t, p) l -> lookup_pend t l = Some p.
Proof.
  induction l as [|[u q] tl IH]; cbn; intros Hn Hin; [destruct Hin|].
  inversion Hn as [|? ? Hu Hn']; subst.
  destruct Hin as [Hin|Hin].
  - inversion Hin; subst. rewrite Z.eqb_refl. reflexivity.
  - destruct (u =? t) eqn:E; auto. apply Z.eqb_eq in E; subst. exfalso. apply Hu.
    apply in_map_iff. exists (t, p); auto.
Qed.

(* At quiescence of a scripted run (the op, then everybody it woke, ran to their next blocking point) every
   thread that is still inside a blocking call sleeps on a node of m_index that conflicts with its request:
   exactly what the check's oracle ("no thread blocked while its range is free") evaluates on the implementation. *)
Lemma rl_quiescent_proof (G : op -> Prop) cs : Forall G cs ->
  let s := fst (run_ops init_state cs) in
  ready s = [] /\
  forall t p, In (t, p) (pend s) -> exists e, In e (idx s) /\ In t (e_wait e) /\ conflict p e.
Proof.
  intros HG s.
  destruct (run_ops_reachable G cs init_state (reach_init G) eq_refl HG) as [Hr Hr0]. fold s in Hr, Hr0.
  split; auto. intros t p Hin.
  destruct (rl_waiter_woken_proof G s Hr t p Hin) as [H|(e & He & Hw)]; [rewrite Hr0 in H; destruct H|].
  exists e. split; [exact He|]. split; [exact Hw|].
  destruct (rl_no_stuck_waiter_proof G s Hr e t He Hw) as (q & Hq & Hc).
  destruct (reachable_winv G s Hr) as [Hn _ _].
  rewrite (lookup_pend_unique t p (pend s) Hn Hin) in Hq. inversion Hq; subst. exact Hc.
Qed.

Lemma find_id_found x : forall a b, ~ In (e_id x) (map e_id a) -> find_id (e_id x) (a ++ x :: b) = Some (a, x, b).
Proof.
  induction a as [|y a IH]; intros b Hn; cbn.
  - rewrite Z.eqb_refl. reflexivity.
  - cbn in Hn. destruct (e_id y =? e_id x) eqn:E; [apply Z.eqb_eq in E; tauto|].
    rewrite IH; auto.
Qed.

(* hand-over: a thread blocked in lock() on node e, whose request shares no byte with any OTHER held range,
   is made runnable by unlock(handle of e) and acquires its range when it resumes (whatever else is runnable) *)
Lemma rl_handoff_proof s t0 t p a e b :
  inv s -> winv s ->
  idx s = a ++ e :: b -> In t (e_wait e) -> lookup_pend t (pend s) = Some p -> p_kind p = KL ->
  Forall (fun x => nosat (e_off x) (e_len x)) (idx s) -> Forall (fun x => nonempty (e_off x) (e_len x)) (idx s) ->
  u64 (p_off p) -> u64 (p_len p) -> nosat (p_off p) (p_len p) -> nonempty (p_off p) (p_len p) ->
  (forall x y, In x (a ++ b) -> byte_in y x -> p_off p <= y < p_off p + p_len p -> False) ->
  let s1 := fst (unlock_handle s t0 (e_id e)) in
  In t (ready s1) /\
  forall r1 r2, ready s1 = r1 ++ t :: r2 ->
    exists s2 pre post, wake (set_ready s1 (r1 ++ r2)) t = (s2, [EvAcq t KL (nid s)]) /\
                        idx s2 = pre ++ mkE (p_off p) (p_len p) (nid s) [] :: post /\ a ++ b = pre ++ post.
Proof.
  intros Hinv Hw Hl Ht Hlp Hk Hns Hne Uo Ul Nsat Nemp Hfree s1.
  assert (Hf : find_id (e_id e) (idx s) = Some (a, e, b)).
  { rewrite Hl. apply find_id_found. destruct Hinv as [_ _ [_ Hn]]. rewrite Hl, map_app in Hn. cbn in Hn.
    apply NoDup_remove_2 in Hn. intros H. apply Hn. apply in_or_app; auto. }
  assert (Hs1 : s1 = mkSt (a ++ b) (nid s) (pend s) (ready s ++ e_wait e)).
  { unfold s1, unlock_handle. rewrite Hf. reflexivity. }
  split. { rewrite Hs1. cbn. apply in_or_app; auto. }
  intros r1 r2 Hr. rewrite Hs1. unfold wake. cbn [set_ready pend idx nid ready]. rewrite Hlp, Hk.
  set (s' := mkSt (a ++ b) (nid s) (remove_pend t (pend s)) (r1 ++ r2)).
  assert (Hinv' : inv s').
  { pose proof (unlock_handle_inv s t0 (e_id e) s1 (snd (unlock_handle s t0 (e_id e))) Hinv) as H.
    rewrite Hs1 in H. unfold s1 in Hs1. rewrite <- Hs1 in H. specialize (H (surjective_pairing _)).
    rewrite Hs1 in H. destruct H as [H1 H2 H3]. split; auto. }
  rewrite Hl in Hns, Hne.
  assert (Hns' : Forall (fun x => nosat (e_off x) (e_len x)) (idx s')).
  { cbn. apply Forall_app in Hns. destruct Hns as [H1 H2]. inversion H2; subst. apply Forall_app; auto. }
  assert (Hne' : Forall (fun x => nonempty (e_off x) (e_len x)) (idx s')).
  { cbn. apply Forall_app in Hne. destruct Hne as [H1 H2]. inversion H2; subst. apply Forall_app; auto. }
  destruct (rl_retry_succeeds_proof s' t KL (p_off p) (p_len p) Hinv' Hns' Hne' Uo Ul Nsat Nemp) as (pre & post & Hpp & Hat).
  { intros x y Hx. apply Hfree. exact Hx. }
  rewrite Hat. eexists. exists pre, post. split; [reflexivity|]. split; [reflexivity|]. exact Hpp.
Qed.

(* ---------------------------------------------------------------- examples ---- *)
(* concrete non-trivial states meeting the hypotheses of the property theorems *)
Definition ex_ops : list op := [OTry 1 KL 0 4; OTry 2 KT 6 2; OTry 3 KL 2 4; OTry 4 KW 7 3].
Definition ex_state : state := fst (run_ops init_state ex_ops).

Lemma ex_ops_strict : Forall G_strict ex_ops.
Proof.
  unfold ex_ops, G_strict, op_u64, op_P, nosat, nonempty, u64. rewrite MAX64_val.
  repeat constructor; lia.
Qed.

(* two held ranges, thread 3 parked on [0,4), thread 4 parked on [6,8) *)
Example ex_state_val : ex_state =
  mkSt [mkE 0 4 0 [3]; mkE 6 2 1 [4]] 2 [(3, mkP KL 2 4 0 4); (4, mkP KW 7 3 6 2)] [].
Proof. vm_compute. reflexivity. Qed.

Example ex_reachable_strict : reachable G_strict ex_state.
Proof. apply run_ops_reachable; [constructor|reflexivity|apply ex_ops_strict]. Qed.

Example ex_reachable_safe : reachable G_safe ex_state /\ Forall G_safe ex_ops.
Proof.
  assert (H : Forall G_safe ex_ops).
  { eapply Forall_impl; [|apply ex_ops_strict]. intros c (H1 & H2 & H3). split; auto. }
  split; auto. apply run_ops_reachable; [constructor|reflexivity|exact H].
Qed.

Example ex_inv : inv ex_state.
Proof. apply (reachable_inv G_strict ex_state (fun c Hc => proj1 Hc) ex_reachable_strict). Qed.

(* hypotheses of rl_retry_succeeds: request [4,6) is free in ex_state *)
Example ex_retry_hyps :
  inv ex_state /\
  Forall (fun e => nosat (e_off e) (e_len e)) (idx ex_state) /\ Forall (fun e => nonempty (e_off e) (e_len e)) (idx ex_state) /\
  u64 4 /\ u64 2 /\ nosat 4 2 /\ nonempty 4 2 /\
  (forall e x, In e (idx ex_state) -> byte_in x e -> 4 <= x < 4 + 2 -> False).
Proof.
  split; [apply ex_inv|]. rewrite ex_state_val. cbn [idx]. unfold nosat, nonempty, u64, byte_in. rewrite MAX64_val.
  repeat split; try lia; try (repeat constructor; cbn; lia).
  intros e x [<-|[<-|[]]]; cbn; lia.
Qed.

(* hypotheses of rl_unlock_erases / rl_adjust_safe in ex_state: unlock(0,4), adjust(#1 -> [5,8)) *)
Example ex_unlock_hyps :
  Forall (fun e => nosat (e_off e) (e_len e)) (idx ex_state) /\ Forall (fun e => nonempty (e_off e) (e_len e)) (idx ex_state) /\
  u64 0 /\ u64 4 /\ nosat 0 4 /\
  fst (unlock_range ex_state 9 0 4) = mkSt [mkE 6 2 1 [4]] 2 [(3, mkP KL 2 4 0 4); (4, mkP KW 7 3 6 2)] [3].
Proof.
  rewrite ex_state_val. cbn [idx]. unfold nosat, nonempty, u64. rewrite MAX64_val.
  repeat split; try lia; try (repeat constructor; cbn; lia).
Qed.

Example ex_adjust_ok :
  adjust_range ex_state 9 (Some 1) 5 3 =
  (mkSt [mkE 0 4 0 [3]; mkE 5 3 1 []] 2 [(3, mkP KL 2 4 0 4); (4, mkP KW 7 3 6 2)] [4], [EvRet 9 0]) /\
  snd (adjust_range ex_state 9 (Some 1) 3 3) = [EvRet 9 (-1)].
Proof. rewrite ex_state_val. split; vm_compute; reflexivity. Qed.

(* hypotheses of lower_bound_partition: a 3-node tree in two shapes gives the same answer as the list *)
Definition ex_tree1 : tree := Node (Node Leaf (mkE 0 4 0 []) Leaf) (mkE 6 2 1 []) (Node Leaf (mkE 9 1 2 []) Leaf).
Definition ex_tree2 : tree := Node Leaf (mkE 0 4 0 []) (Node Leaf (mkE 6 2 1 []) (Node Leaf (mkE 9 1 2 []) Leaf)).
Example ex_tree_hyps : ordered (inorder ex_tree1) /\ Forall wf_e (inorder ex_tree1) /\ inorder ex_tree2 = inorder ex_tree1 /\
  tree_lb 5 ex_tree1 [] = [mkE 6 2 1 []; mkE 9 1 2 []] /\ tree_lb 5 ex_tree2 [] = [mkE 6 2 1 []; mkE 9 1 2 []].
Proof.
  split; [|split; [|split; [reflexivity|split; reflexivity]]].
  - cbn. repeat constructor; unfold before, e_end, r_end, sat_add; cbn; rewrite ?MAX64_val; lia.
  - unfold ex_tree1. cbn [inorder app]. repeat constructor; unfold u64; cbn [e_off e_len]; rewrite ?MAX64_val; lia.
Qed.

(* the conclusion of rl_no_stuck_waiter is not vacuous in ex_state: thread 3 waits on [0,4) for [2,6) *)
Example ex_parked_conflicts : exists p, lookup_pend 3 (pend ex_state) = Some p /\ conflict p (mkE 0 4 0 [3]).
Proof.
  rewrite ex_state_val. eexists. split; [reflexivity|]. unfold conflict, e_end, r_end, sat_add; cbn [p_off p_len e_off e_len]. rewrite MAX64_val. cbn. lia.
Qed.

(* the hypotheses of rl_handoff hold in ex_state for thread 3 (parked on node #0 = [0,4), wants [2,6)) *)
Example ex_handoff :
  In 3 (ready (fst (unlock_handle ex_state 9 0))) /\
  forall r1 r2, ready (fst (unlock_handle ex_state 9 0)) = r1 ++ 3 :: r2 ->
    exists s2 pre post, wake (set_ready (fst (unlock_handle ex_state 9 0)) (r1 ++ r2)) 3 = (s2, [EvAcq 3 KL (nid ex_state)]) /\
                        idx s2 = pre ++ mkE 2 4 (nid ex_state) [] :: post /\ [] ++ [mkE 6 2 1 [4]] = pre ++ post.
Proof.
  apply (rl_handoff_proof ex_state 9 3 (mkP KL 2 4 0 4) [] (mkE 0 4 0 [3]) [mkE 6 2 1 [4]]).
  - apply ex_inv.
  - apply (reachable_winv G_strict). apply ex_reachable_strict.
  - rewrite ex_state_val. reflexivity.
  - left; reflexivity.
  - rewrite ex_state_val. reflexivity.
  - reflexivity.
  - apply ex_retry_hyps.
  - apply ex_retry_hyps.
  - unfold u64; cbn; rewrite MAX64_val; lia.
  - unfold u64; cbn; rewrite MAX64_val; lia.
  - unfold nosat; cbn; rewrite MAX64_val; lia.
  - unfold nonempty; cbn; lia.
  - intros x y [<-|[]]; unfold byte_in; cbn; lia.
Qed.
